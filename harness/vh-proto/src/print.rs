//! An independent printer for `imap_proto::Response`, derived from the RFC grammars (RFC 3501
//! section 9, 2087, 2971, 4314, 4315, 4551, 5256, 5464, 7162, Gmail extensions) with a choice of
//! encodings.  The parser source was consulted only to learn which wire shape belongs to which
//! Rust value.  All randomness comes from `crate::prng::Rng`.

use imap_proto::types::*;

use crate::prng::Rng;

pub struct Style {
    /// per-letter random case for every protocol keyword; false = canonical RFC spelling
    pub random_case: bool,
    /// 0 = canonical (atom if allowed and possible, else quoted if possible, else literal);
    /// 1 = random among admissible forms; 2 = literal wherever a literal is allowed
    pub string_forms: u8,
    /// max number of leading zeros added to numbers (and literal lengths); 0 = none
    pub zero_pad: u32,
    /// randomly apply the tolerated deviations
    pub deviations: bool,
    /// print MailboxDatum::List as LSUB instead of LIST
    pub lsub: bool,
}

// ---------------------------------------------------------------------------------------------
// character classes (RFC 3501 section 9)

fn is_atom_char(c: u8) -> bool {
    (0x21..=0x7e).contains(&c) && !matches!(c, b'(' | b')' | b'{' | b'%' | b'*' | b'"' | b'\\' | b']')
}

fn is_astring_char(c: u8) -> bool {
    is_atom_char(c) || c == b']'
}

/// Can be sent as `1*ASTRING-CHAR`.
fn astring_atom_ok(b: &[u8]) -> bool {
    !b.is_empty() && b.iter().all(|c| is_astring_char(*c))
}

/// Can be sent as a quoted string without escapes: TEXT-CHARs other than quoted-specials.
fn quoted_ok(b: &[u8]) -> bool {
    b.iter().all(|c| matches!(*c, 0x01..=0x7f) && !matches!(*c, b'\r' | b'\n' | b'"' | b'\\'))
}

thread_local! {
    /// When set, a string that contains a double quote or a backslash may be sent as a quoted string with
    /// the two RFC 3501 escapes (a conformant server may do that).  The crate returns quoted strings
    /// without undoing the escapes, so the parsed value is then NOT the printed one: only checks that do
    /// not compare such values (C16's "one value per item", the robustness checks) switch this on.
    pub static ESCAPED_QUOTED: std::cell::Cell<bool> = const { std::cell::Cell::new(false) };
}

pub fn with_escaped_quoted<T>(f: impl FnOnce() -> T) -> T {
    struct Reset(bool);
    impl Drop for Reset {
        fn drop(&mut self) {
            ESCAPED_QUOTED.with(|c| c.set(self.0));
        }
    }
    let _r = Reset(ESCAPED_QUOTED.with(|c| c.get()));
    ESCAPED_QUOTED.with(|c| c.set(true));
    f()
}

/// TEXT-CHARs that include a quoted-special: printable as a quoted string only with escapes
fn escaped_quoted_ok(b: &[u8]) -> bool {
    b.iter().all(|c| matches!(*c, 0x01..=0x7f) && !matches!(*c, b'\r' | b'\n')) && b.iter().any(|c| matches!(*c, b'"' | b'\\'))
}

#[derive(Clone, Copy, PartialEq, Eq)]
enum Form {
    Atom,
    Quoted,
    Literal,
}

struct Pr<'a> {
    o: Vec<u8>,
    rng: &'a mut Rng,
    st: &'a Style,
}

impl<'a> Pr<'a> {
    fn raw(&mut self, b: &[u8]) {
        self.o.extend_from_slice(b);
    }

    fn sp(&mut self) {
        self.o.push(b' ');
    }

    fn crlf(&mut self) {
        self.raw(b"\r\n");
    }

    fn dev(&mut self, num: u64, den: u64) -> bool {
        self.st.deviations && self.rng.chance(num, den)
    }

    /// The single SP of the QUOTA / QUOTAROOT / ACL / LISTRIGHTS / MYRIGHTS / ID / VANISHED
    /// grammars; with deviations sometimes several spaces or tabs.
    fn wsp(&mut self) {
        if self.dev(1, 3) {
            let n = self.rng.range(1, 3);
            for _ in 0..n {
                let c = if self.rng.chance(1, 3) { b'\t' } else { b' ' };
                self.o.push(c);
            }
        } else {
            self.sp();
        }
    }

    /// Several plain spaces (VANISHED deviation keeps to SP).
    fn spaces(&mut self) {
        if self.dev(1, 3) {
            let n = self.rng.range(2, 4);
            for _ in 0..n {
                self.sp();
            }
        } else {
            self.sp();
        }
    }

    /// A protocol keyword, spelled canonically or with per-letter random case.
    fn kw(&mut self, s: &str) {
        for c in s.bytes() {
            if self.st.random_case && c.is_ascii_alphabetic() {
                if self.rng.bool() {
                    self.o.push(c.to_ascii_uppercase());
                } else {
                    self.o.push(c.to_ascii_lowercase());
                }
            } else {
                self.o.push(c);
            }
        }
    }

    fn randomized_kw(&mut self, s: &str) -> Vec<u8> {
        let keep = std::mem::take(&mut self.o);
        self.kw(s);
        std::mem::replace(&mut self.o, keep)
    }

    fn num(&mut self, n: u64) {
        if self.st.zero_pad > 0 {
            let k = self.rng.range(0, self.st.zero_pad as u64);
            for _ in 0..k {
                self.o.push(b'0');
            }
        }
        self.raw(n.to_string().as_bytes());
    }

    fn nil(&mut self) {
        self.kw("NIL");
    }

    fn literal(&mut self, b: &[u8]) {
        self.raw(b"{");
        self.num(b.len() as u64);
        self.raw(b"}\r\n");
        self.raw(b);
    }

    fn quoted(&mut self, b: &[u8]) {
        assert!(quoted_ok(b), "not printable as quoted: {:?}", String::from_utf8_lossy(b));
        self.raw(b"\"");
        self.raw(b);
        self.raw(b"\"");
    }

    fn choose(&mut self, atom: bool, quoted: bool, literal: bool) -> Form {
        assert!(atom || quoted || literal, "no admissible string form");
        match self.st.string_forms {
            0 => {
                if atom {
                    Form::Atom
                } else if quoted {
                    Form::Quoted
                } else {
                    Form::Literal
                }
            }
            1 => {
                let mut forms = Vec::new();
                if atom {
                    forms.push(Form::Atom);
                }
                if quoted {
                    forms.push(Form::Quoted);
                }
                if literal {
                    forms.push(Form::Literal);
                }
                *self.rng.pick(&forms)
            }
            _ => {
                if literal {
                    Form::Literal
                } else if quoted {
                    Form::Quoted
                } else {
                    Form::Atom
                }
            }
        }
    }

    fn emit(&mut self, form: Form, b: &[u8]) {
        match form {
            Form::Atom => self.raw(b),
            Form::Quoted => self.quoted(b),
            Form::Literal => self.literal(b),
        }
    }

    fn try_escaped(&mut self, b: &[u8]) -> bool {
        if ESCAPED_QUOTED.with(|c| c.get()) && escaped_quoted_ok(b) && self.rng.chance(3, 4) {
            self.raw(b"\"");
            for c in b {
                if *c == b'"' || *c == b'\\' {
                    self.o.push(b'\\');
                }
                self.o.push(*c);
            }
            self.raw(b"\"");
            return true;
        }
        false
    }

    /// string = quoted / literal
    fn string(&mut self, b: &[u8]) {
        if self.try_escaped(b) {
            return;
        }
        let f = self.choose(false, quoted_ok(b), true);
        self.emit(f, b);
    }

    /// astring = 1*ASTRING-CHAR / string
    fn astring(&mut self, b: &[u8]) {
        if self.try_escaped(b) {
            return;
        }
        let f = self.choose(astring_atom_ok(b), quoted_ok(b), true);
        self.emit(f, b);
    }

    /// nstring = string / nil
    fn nstring(&mut self, b: Option<&[u8]>) {
        match b {
            None => self.nil(),
            Some(b) => self.string(b),
        }
    }

    fn nstring_str(&mut self, s: &Option<std::borrow::Cow<'_, str>>) {
        self.nstring(s.as_ref().map(|s| s.as_bytes()));
    }

    fn nstring_bytes(&mut self, s: &Option<std::borrow::Cow<'_, [u8]>>) {
        self.nstring(s.as_ref().map(|s| s.as_ref()));
    }

    /// mailbox = "INBOX" / astring ; INBOX is case-insensitive in every string form
    fn mailbox(&mut self, name: &str) {
        if name == "INBOX" {
            let b = self.randomized_kw("INBOX");
            self.astring(&b);
        } else {
            self.astring(name.as_bytes());
        }
    }

    // ----- response codes -----

    fn capability(&mut self, c: &Capability<'_>) {
        match c {
            Capability::Imap4rev1 => self.kw("IMAP4rev1"),
            Capability::Auth(a) => {
                self.kw("AUTH=");
                self.raw(a.as_bytes());
            }
            Capability::Atom(a) => self.raw(a.as_bytes()),
        }
    }

    /// capability-data = "CAPABILITY" *(SP capability) SP "IMAP4rev1" *(SP capability)
    fn capability_data(&mut self, caps: &[Capability<'_>]) {
        self.kw("CAPABILITY");
        for c in caps {
            self.sp();
            self.capability(c);
        }
    }

    /// flag list: "(" [flag *(SP flag)] ")" ; flags are atoms or "\" atom, `\*` in flag-perm
    fn flag_list(&mut self, flags: &[std::borrow::Cow<'_, str>]) {
        self.raw(b"(");
        for (i, f) in flags.iter().enumerate() {
            if i > 0 {
                self.sp();
            }
            self.raw(f.as_bytes());
        }
        self.raw(b")");
    }

    fn uid_set(&mut self, set: &[UidSetMember]) {
        for (i, m) in set.iter().enumerate() {
            if i > 0 {
                self.raw(b",");
            }
            match m {
                UidSetMember::Uid(n) => self.num(*n as u64),
                UidSetMember::UidRange(r) => {
                    let (mut a, mut b) = (*r.start(), *r.end());
                    if self.st.string_forms != 0 && self.rng.bool() {
                        std::mem::swap(&mut a, &mut b);
                    }
                    self.num(a as u64);
                    self.raw(b":");
                    self.num(b as u64);
                }
            }
        }
    }

    fn code(&mut self, c: &ResponseCode<'_>) {
        self.raw(b"[");
        match c {
            ResponseCode::Alert => self.kw("ALERT"),
            ResponseCode::BadCharset(None) => self.kw("BADCHARSET"),
            ResponseCode::BadCharset(Some(v)) => {
                self.kw("BADCHARSET");
                self.sp();
                self.raw(b"(");
                for (i, cs) in v.iter().enumerate() {
                    if i > 0 {
                        self.sp();
                    }
                    self.astring(cs.as_bytes());
                }
                self.raw(b")");
            }
            ResponseCode::Capabilities(caps) => self.capability_data(caps),
            ResponseCode::HighestModSeq(n) => {
                self.kw("HIGHESTMODSEQ");
                self.sp();
                self.num(*n);
            }
            ResponseCode::Parse => self.kw("PARSE"),
            ResponseCode::PermanentFlags(f) => {
                self.kw("PERMANENTFLAGS");
                self.sp();
                self.flag_list(f);
            }
            ResponseCode::ReadOnly => self.kw("READ-ONLY"),
            ResponseCode::ReadWrite => self.kw("READ-WRITE"),
            ResponseCode::TryCreate => self.kw("TRYCREATE"),
            ResponseCode::UidNext(n) => {
                self.kw("UIDNEXT");
                self.sp();
                self.num(*n as u64);
            }
            ResponseCode::UidValidity(n) => {
                self.kw("UIDVALIDITY");
                self.sp();
                self.num(*n as u64);
            }
            ResponseCode::Unseen(n) => {
                self.kw("UNSEEN");
                self.sp();
                self.num(*n as u64);
            }
            ResponseCode::AppendUid(v, set) => {
                self.kw("APPENDUID");
                self.sp();
                self.num(*v as u64);
                self.sp();
                self.uid_set(set);
            }
            ResponseCode::CopyUid(v, src, dst) => {
                self.kw("COPYUID");
                self.sp();
                self.num(*v as u64);
                self.sp();
                self.uid_set(src);
                self.sp();
                self.uid_set(dst);
            }
            ResponseCode::UidNotSticky => self.kw("UIDNOTSTICKY"),
            ResponseCode::MetadataLongEntries(n) => {
                self.kw("METADATA");
                self.sp();
                self.kw("LONGENTRIES");
                self.sp();
                self.num(*n);
            }
            ResponseCode::MetadataMaxSize(n) => {
                self.kw("METADATA");
                self.sp();
                self.kw("MAXSIZE");
                self.sp();
                self.num(*n);
            }
            ResponseCode::MetadataTooMany => {
                self.kw("METADATA");
                self.sp();
                self.kw("TOOMANY");
            }
            ResponseCode::MetadataNoPrivate => {
                self.kw("METADATA");
                self.sp();
                self.kw("NOPRIVATE");
            }
            _ => panic!("unprintable response code {c:?}"),
        }
        self.raw(b"]");
    }

    fn status(&mut self, s: &Status) {
        self.kw(match s {
            Status::Ok => "OK",
            Status::No => "NO",
            Status::Bad => "BAD",
            Status::PreAuth => "PREAUTH",
            Status::Bye => "BYE",
        });
    }

    /// `[code]`, `[code] text`, `text` or nothing; `lead` is printed first iff anything follows.
    fn resp_text(&mut self, lead: &[u8], code: &Option<ResponseCode<'_>>, info: &Option<std::borrow::Cow<'_, str>>) {
        if code.is_none() && info.is_none() {
            return;
        }
        self.raw(lead);
        if let Some(c) = code {
            self.code(c);
            if info.is_some() {
                self.sp();
            }
        }
        if let Some(t) = info {
            self.raw(t.as_bytes());
        }
    }

    // ----- envelope -----

    fn address(&mut self, a: &Address<'_>) {
        self.raw(b"(");
        self.nstring_bytes(&a.name);
        self.sp();
        self.nstring_bytes(&a.adl);
        self.sp();
        self.nstring_bytes(&a.mailbox);
        self.sp();
        self.nstring_bytes(&a.host);
        self.raw(b")");
    }

    /// "(" 1*address ")" / nil
    fn addresses(&mut self, v: &Option<Vec<Address<'_>>>) {
        match v {
            None => self.nil(),
            Some(v) => {
                self.raw(b"(");
                for (i, a) in v.iter().enumerate() {
                    if i > 0 && self.dev(1, 2) {
                        self.sp();
                    }
                    self.address(a);
                }
                self.raw(b")");
            }
        }
    }

    fn envelope(&mut self, e: &Envelope<'_>) {
        self.raw(b"(");
        self.nstring_bytes(&e.date);
        self.sp();
        self.nstring_bytes(&e.subject);
        self.sp();
        self.addresses(&e.from);
        self.sp();
        self.addresses(&e.sender);
        self.sp();
        self.addresses(&e.reply_to);
        self.sp();
        self.addresses(&e.to);
        self.sp();
        self.addresses(&e.cc);
        self.sp();
        self.addresses(&e.bcc);
        self.sp();
        self.nstring_bytes(&e.in_reply_to);
        self.sp();
        self.nstring_bytes(&e.message_id);
        self.raw(b")");
    }

    // ----- body structure -----

    fn quoted_kw(&mut self, s: &str) {
        self.raw(b"\"");
        self.kw(s);
        self.raw(b"\"");
    }

    /// body-fld-param = "(" string SP string *(SP string SP string) ")" / nil
    fn body_params(&mut self, p: &BodyParams<'_>) {
        match p {
            None => self.nil(),
            Some(v) => {
                self.raw(b"(");
                for (i, (k, val)) in v.iter().enumerate() {
                    if i > 0 {
                        self.sp();
                    }
                    self.string(k.as_bytes());
                    self.sp();
                    self.string(val.as_bytes());
                }
                self.raw(b")");
            }
        }
    }

    fn body_encoding(&mut self, e: &ContentEncoding<'_>) {
        match e {
            ContentEncoding::SevenBit => self.quoted_kw("7BIT"),
            ContentEncoding::EightBit => self.quoted_kw("8BIT"),
            ContentEncoding::Binary => self.quoted_kw("BINARY"),
            ContentEncoding::Base64 => self.quoted_kw("BASE64"),
            ContentEncoding::QuotedPrintable => self.quoted_kw("QUOTED-PRINTABLE"),
            ContentEncoding::Other(s) => self.string(s.as_bytes()),
        }
    }

    /// body-fields = body-fld-param SP body-fld-id SP body-fld-desc SP body-fld-enc SP body-fld-octets
    fn body_fields(&mut self, params: &BodyParams<'_>, o: &BodyContentSinglePart<'_>) {
        self.body_params(params);
        self.sp();
        self.nstring_str(&o.id);
        self.sp();
        self.nstring_str(&o.description);
        self.sp();
        self.body_encoding(&o.transfer_encoding);
        self.sp();
        self.num(o.octets as u64);
    }

    /// body-fld-dsp = "(" string SP body-fld-param ")" / nil
    fn body_disposition(&mut self, d: &Option<ContentDisposition<'_>>) {
        match d {
            None => self.nil(),
            Some(d) => {
                self.raw(b"(");
                self.string(d.ty.as_bytes());
                self.sp();
                self.body_params(&d.params);
                self.raw(b")");
            }
        }
    }

    /// body-fld-lang = nstring / "(" string *(SP string) ")"
    fn body_lang(&mut self, l: &Option<Vec<std::borrow::Cow<'_, str>>>) {
        match l {
            None => self.nil(),
            Some(v) => {
                let as_list = match v.len() {
                    0 => panic!("empty language list is not printable"),
                    1 => self.st.string_forms != 0 && self.rng.bool(),
                    _ => true,
                };
                if as_list {
                    self.raw(b"(");
                    for (i, s) in v.iter().enumerate() {
                        if i > 0 {
                            self.sp();
                        }
                        self.string(s.as_bytes());
                    }
                    self.raw(b")");
                } else {
                    self.string(v[0].as_bytes());
                }
            }
        }
    }

    /// body-extension = nstring / number / "(" body-extension *(SP body-extension) ")"
    fn body_extension(&mut self, e: &BodyExtension<'_>) {
        match e {
            BodyExtension::Num(n) => self.num(*n as u64),
            BodyExtension::Str(s) => self.nstring_str(s),
            BodyExtension::List(v) => {
                assert!(!v.is_empty(), "empty body extension list is not printable");
                self.raw(b"(");
                for (i, x) in v.iter().enumerate() {
                    if i > 0 {
                        self.sp();
                    }
                    self.body_extension(x);
                }
                self.raw(b")");
            }
        }
    }

    /// The optional-from-the-right tail shared by body-ext-1part and body-ext-mpart, after slot 0:
    /// [SP body-fld-dsp [SP body-fld-lang [SP body-fld-loc *(SP body-extension)]]].
    /// `slot0` prints the first slot (md5 / parameter list); `slot0_present` says whether it is non-nil.
    fn body_ext_tail(&mut self, slot0_present: bool, c: &BodyContentCommon<'_>, ext: &Option<BodyExtension<'_>>) -> usize {
        // number of slots that must be printed
        if ext.is_some() {
            5
        } else if c.location.is_some() {
            4
        } else if c.language.is_some() {
            3
        } else if c.disposition.is_some() {
            2
        } else if slot0_present {
            1
        } else if self.st.string_forms != 0 {
            // trailing nil slots are still conformant
            if self.rng.chance(1, 4) {
                self.rng.range(1, 4) as usize
            } else {
                0
            }
        } else {
            0
        }
    }

    fn body_ext_rest(&mut self, slots: usize, c: &BodyContentCommon<'_>, ext: &Option<BodyExtension<'_>>) {
        if slots >= 2 {
            self.sp();
            self.body_disposition(&c.disposition);
        }
        if slots >= 3 {
            self.sp();
            self.body_lang(&c.language);
        }
        if slots >= 4 {
            self.sp();
            self.nstring_str(&c.location);
        }
        if slots >= 5 {
            self.sp();
            match ext {
                Some(e) => self.body_extension(e),
                None => panic!("slot count 5 without extension"),
            }
        }
    }

    fn body_ext_1part(&mut self, c: &BodyContentCommon<'_>, o: &BodyContentSinglePart<'_>, ext: &Option<BodyExtension<'_>>) {
        let slots = self.body_ext_tail(o.md5.is_some(), c, ext);
        if slots >= 1 {
            self.sp();
            self.nstring_str(&o.md5);
        }
        self.body_ext_rest(slots, c, ext);
    }

    fn body(&mut self, b: &BodyStructure<'_>) {
        self.raw(b"(");
        match b {
            BodyStructure::Basic { common, other, extension } => {
                // media-basic = (quoted keyword / string) SP media-subtype
                self.string(common.ty.ty.as_bytes());
                self.sp();
                self.string(common.ty.subtype.as_bytes());
                self.sp();
                self.body_fields(&common.ty.params, other);
                self.body_ext_1part(common, other, extension);
            }
            BodyStructure::Text { common, other, lines, extension } => {
                // media-text = DQUOTE "TEXT" DQUOTE SP media-subtype
                self.quoted_kw("TEXT");
                self.sp();
                self.string(common.ty.subtype.as_bytes());
                self.sp();
                self.body_fields(&common.ty.params, other);
                self.sp();
                self.num(*lines as u64);
                self.body_ext_1part(common, other, extension);
            }
            BodyStructure::Message { common, other, envelope, body, lines, extension } => {
                // media-message = DQUOTE "MESSAGE" DQUOTE SP DQUOTE "RFC822" DQUOTE
                self.quoted_kw("MESSAGE");
                self.sp();
                self.quoted_kw("RFC822");
                self.sp();
                self.body_fields(&common.ty.params, other);
                self.sp();
                self.envelope(envelope);
                self.sp();
                self.body(body);
                self.sp();
                self.num(*lines as u64);
                self.body_ext_1part(common, other, extension);
            }
            BodyStructure::Multipart { common, bodies, extension } => {
                // body-type-mpart = 1*body SP media-subtype [SP body-ext-mpart]
                assert!(!bodies.is_empty(), "multipart without parts is not printable");
                for child in bodies {
                    self.body(child);
                }
                self.sp();
                self.string(common.ty.subtype.as_bytes());
                let slots = self.body_ext_tail(common.ty.params.is_some(), common, extension);
                if slots >= 1 {
                    self.sp();
                    self.body_params(&common.ty.params);
                }
                self.body_ext_rest(slots, common, extension);
            }
        }
        self.raw(b")");
    }

    // ----- fetch attributes -----

    fn section_text(&mut self, t: &MessageSection) {
        match t {
            MessageSection::Header => {
                if self.st.string_forms == 1 && self.rng.chance(1, 3) {
                    // "HEADER.FIELDS" [".NOT"] SP header-list also yields MessageSection::Header
                    const NAMES: &[&str] = &["From", "To", "Subject", "X-Weird Name", "DATE", "Message-ID"];
                    self.kw("HEADER.FIELDS");
                    if self.rng.bool() {
                        self.kw(".NOT");
                    }
                    self.sp();
                    self.raw(b"(");
                    let n = self.rng.range(1, 3);
                    for i in 0..n {
                        if i > 0 {
                            self.sp();
                        }
                        let name = *self.rng.pick(NAMES);
                        self.astring(name.as_bytes());
                    }
                    self.raw(b")");
                } else {
                    self.kw("HEADER");
                }
            }
            MessageSection::Text => self.kw("TEXT"),
            MessageSection::Mime => self.kw("MIME"),
        }
    }

    fn section(&mut self, s: &Option<SectionPath>) {
        self.raw(b"[");
        match s {
            None => {}
            Some(SectionPath::Full(t)) => self.section_text(t),
            Some(SectionPath::Part(path, t)) => {
                for (i, n) in path.iter().enumerate() {
                    if i > 0 {
                        self.raw(b".");
                    }
                    self.num(*n as u64);
                }
                if let Some(t) = t {
                    if !path.is_empty() {
                        self.raw(b".");
                    }
                    self.section_text(t);
                }
            }
        }
        self.raw(b"]");
    }

    /// X-GM-LABELS list element: flag / atom form, or quoted
    fn gmail_label(&mut self, l: &str) {
        let b = l.as_bytes();
        let flag_shaped = if b.first() == Some(&b'\\') {
            b.len() > 1 && b[1..].iter().all(|c| is_atom_char(*c))
        } else {
            astring_atom_ok(b)
        };
        let f = self.choose(flag_shaped, quoted_ok(b), false);
        self.emit(f, b);
    }

    fn gmail_labels(&mut self, v: &[std::borrow::Cow<'_, str>]) {
        self.kw("X-GM-LABELS");
        self.sp();
        self.raw(b"(");
        for (i, l) in v.iter().enumerate() {
            if i > 0 {
                self.sp();
            }
            self.gmail_label(l);
        }
        self.raw(b")");
    }

    fn attribute(&mut self, a: &AttributeValue<'_>) {
        match a {
            AttributeValue::BodySection { section, index, data } => {
                self.kw("BODY");
                self.section(section);
                if let Some(i) = index {
                    self.raw(b"<");
                    self.num(*i as u64);
                    self.raw(b">");
                }
                self.sp();
                self.nstring_bytes(data);
            }
            AttributeValue::BodyStructure(b) => {
                self.kw("BODYSTRUCTURE");
                self.sp();
                self.body(b);
            }
            AttributeValue::Envelope(e) => {
                self.kw("ENVELOPE");
                self.sp();
                self.envelope(e);
            }
            AttributeValue::Flags(f) => {
                self.kw("FLAGS");
                self.sp();
                self.flag_list(f);
            }
            AttributeValue::InternalDate(d) => {
                self.kw("INTERNALDATE");
                self.sp();
                self.string(d.as_bytes());
            }
            AttributeValue::ModSeq(n) => {
                self.kw("MODSEQ");
                self.sp();
                self.raw(b"(");
                self.num(*n);
                self.raw(b")");
            }
            AttributeValue::Rfc822(d) => {
                self.kw("RFC822");
                self.sp();
                self.nstring_bytes(d);
            }
            AttributeValue::Rfc822Header(d) => {
                self.kw("RFC822.HEADER");
                self.sp();
                if self.dev(1, 3) {
                    self.sp();
                }
                self.nstring_bytes(d);
            }
            AttributeValue::Rfc822Size(n) => {
                self.kw("RFC822.SIZE");
                self.sp();
                self.num(*n as u64);
            }
            AttributeValue::Rfc822Text(d) => {
                self.kw("RFC822.TEXT");
                self.sp();
                self.nstring_bytes(d);
            }
            AttributeValue::Uid(n) => {
                self.kw("UID");
                self.sp();
                self.num(*n as u64);
            }
            AttributeValue::GmailLabels(v) => self.gmail_labels(v),
            AttributeValue::GmailMsgId(n) => {
                self.kw("X-GM-MSGID");
                self.sp();
                self.num(*n);
            }
            _ => panic!("unprintable attribute {a:?}"),
        }
    }

    // ----- mailbox data -----

    fn name_attribute(&mut self, a: &NameAttribute<'_>) {
        match a {
            NameAttribute::NoInferiors => self.kw("\\Noinferiors"),
            NameAttribute::NoSelect => self.kw("\\Noselect"),
            NameAttribute::Marked => self.kw("\\Marked"),
            NameAttribute::Unmarked => self.kw("\\Unmarked"),
            NameAttribute::All => self.kw("\\All"),
            NameAttribute::Archive => self.kw("\\Archive"),
            NameAttribute::Drafts => self.kw("\\Drafts"),
            NameAttribute::Flagged => self.kw("\\Flagged"),
            NameAttribute::Junk => self.kw("\\Junk"),
            NameAttribute::Sent => self.kw("\\Sent"),
            NameAttribute::Trash => self.kw("\\Trash"),
            NameAttribute::Extension(s) => self.raw(s.as_bytes()),
            _ => panic!("unprintable name attribute {a:?}"),
        }
    }

    fn status_attribute(&mut self, a: &StatusAttribute) {
        let (k, n): (&str, u64) = match a {
            StatusAttribute::HighestModSeq(n) => ("HIGHESTMODSEQ", *n),
            StatusAttribute::Messages(n) => ("MESSAGES", *n as u64),
            StatusAttribute::Recent(n) => ("RECENT", *n as u64),
            StatusAttribute::UidNext(n) => ("UIDNEXT", *n as u64),
            StatusAttribute::UidValidity(n) => ("UIDVALIDITY", *n as u64),
            StatusAttribute::Unseen(n) => ("UNSEEN", *n as u64),
            _ => panic!("unprintable status attribute {a:?}"),
        };
        self.kw(k);
        self.sp();
        self.num(n);
    }

    fn number_list(&mut self, kw: &str, v: &[u32]) {
        self.kw(kw);
        for n in v {
            self.sp();
            self.num(*n as u64);
        }
        if self.dev(1, 3) {
            self.sp();
        }
    }

    fn mailbox_datum(&mut self, d: &MailboxDatum<'_>) {
        match d {
            MailboxDatum::Exists(n) => {
                self.num(*n as u64);
                self.sp();
                self.kw("EXISTS");
            }
            MailboxDatum::Recent(n) => {
                self.num(*n as u64);
                self.sp();
                self.kw("RECENT");
            }
            MailboxDatum::Flags(f) => {
                self.kw("FLAGS");
                self.sp();
                self.flag_list(f);
            }
            MailboxDatum::List { name_attributes, delimiter, name } => {
                // mailbox-list = "(" [mbx-list-flags] ")" SP (DQUOTE QUOTED-CHAR DQUOTE / nil) SP mailbox
                self.kw(if self.st.lsub { "LSUB" } else { "LIST" });
                self.sp();
                self.raw(b"(");
                for (i, a) in name_attributes.iter().enumerate() {
                    if i > 0 {
                        self.sp();
                    }
                    self.name_attribute(a);
                }
                self.raw(b")");
                self.sp();
                match delimiter {
                    None => self.nil(),
                    Some(d) => self.quoted(d.as_bytes()),
                }
                self.sp();
                self.mailbox(name);
            }
            MailboxDatum::Search(v) => self.number_list("SEARCH", v),
            MailboxDatum::Sort(v) => self.number_list("SORT", v),
            MailboxDatum::Status { mailbox, status } => {
                self.kw("STATUS");
                self.sp();
                self.mailbox(mailbox);
                self.sp();
                self.raw(b"(");
                for (i, a) in status.iter().enumerate() {
                    if i > 0 {
                        self.sp();
                    }
                    self.status_attribute(a);
                }
                self.raw(b")");
            }
            MailboxDatum::MetadataSolicited { mailbox, values } => {
                // "METADATA" SP mailbox SP "(" entry SP value *(SP entry SP value) ")"
                assert!(!values.is_empty(), "empty METADATA entry-value list is not printable");
                self.kw("METADATA");
                self.sp();
                self.mailbox(mailbox);
                self.sp();
                self.raw(b"(");
                for (i, m) in values.iter().enumerate() {
                    if i > 0 {
                        self.sp();
                    }
                    self.astring(m.entry.as_bytes());
                    self.sp();
                    self.nstring(m.value.as_ref().map(|s| s.as_bytes()));
                }
                self.raw(b")");
            }
            MailboxDatum::MetadataUnsolicited { mailbox, values } => {
                // "METADATA" SP mailbox SP entry *(SP entry)
                assert!(!values.is_empty(), "empty METADATA entry list is not printable");
                self.kw("METADATA");
                self.sp();
                self.mailbox(mailbox);
                for e in values {
                    self.sp();
                    self.astring(e.as_bytes());
                }
            }
            MailboxDatum::GmailLabels(v) => self.gmail_labels(v),
            MailboxDatum::GmailMsgId(n) => {
                self.kw("X-GM-MSGID");
                self.sp();
                self.num(*n);
            }
            _ => panic!("unprintable mailbox datum {d:?}"),
        }
    }

    // ----- quota, id, acl -----

    fn rights(&mut self, r: &[AclRight]) {
        let s: String = r.iter().map(|x| char::from(*x)).collect();
        self.astring(s.as_bytes());
    }

    fn id_params(&mut self, m: &std::collections::HashMap<std::borrow::Cow<'_, str>, std::borrow::Cow<'_, str>>) {
        // no dependence on the HashMap iteration order: sort, then shuffle with our own generator
        let mut items: Vec<(String, Option<String>)> = m.iter().map(|(k, v)| (k.to_string(), Some(v.to_string()))).collect();
        items.sort();
        if self.st.string_forms == 1 && !items.is_empty() && self.rng.chance(1, 4) {
            // a field with a nil value carries no information and is dropped by the type
            let mut k = String::from("x-nil-field");
            while m.contains_key(k.as_str()) {
                k.push('_');
            }
            items.push((k, None));
        }
        for i in (1..items.len()).rev() {
            let j = self.rng.usize(i + 1);
            items.swap(i, j);
        }
        assert!(!items.is_empty(), "empty ID parameter list is not printable");
        self.raw(b"(");
        for (i, (k, v)) in items.iter().enumerate() {
            if i > 0 {
                self.wsp();
            }
            self.string(k.as_bytes());
            self.wsp();
            self.nstring(v.as_ref().map(|s| s.as_bytes()));
        }
        if self.dev(1, 3) {
            self.sp();
        }
        self.raw(b")");
    }

    fn response(&mut self, r: &Response<'_>) {
        // untagged responses start with "* "; `trailing` says whether the tolerated extra spaces
        // before CRLF may be added
        let mut trailing = true;
        match r {
            Response::Continue { code, information } => {
                // continue-req = "+" SP (resp-text / base64) CRLF
                self.raw(b"+");
                if !self.dev(1, 3) {
                    self.sp();
                }
                self.resp_text(b"", code, information);
                trailing = false;
            }
            Response::Done { tag, status, code, information } => {
                // response-tagged = tag SP resp-cond-state CRLF
                self.raw(tag.0.as_bytes());
                self.sp();
                self.status(status);
                self.resp_text(b" ", code, information);
                trailing = false;
            }
            Response::Data { status, code, information } => {
                self.raw(b"* ");
                self.status(status);
                self.resp_text(b" ", code, information);
                // trailing spaces would be part of the text
                trailing = false;
            }
            Response::Capabilities(caps) => {
                self.raw(b"* ");
                self.capability_data(caps);
            }
            Response::Expunge(n) => {
                self.raw(b"* ");
                self.num(*n as u64);
                self.sp();
                self.kw("EXPUNGE");
            }
            Response::Vanished { earlier, uids } => {
                // "VANISHED" [SP "(EARLIER)"] SP known-uids
                assert!(!uids.is_empty(), "empty VANISHED set is not printable");
                self.raw(b"* ");
                self.kw("VANISHED");
                if *earlier {
                    self.spaces();
                    self.kw("(EARLIER)");
                }
                self.spaces();
                for (i, r) in uids.iter().enumerate() {
                    if i > 0 {
                        self.raw(b",");
                    }
                    let (mut a, mut b) = (*r.start(), *r.end());
                    // "two seq-number values and all values between these two regardless of order"
                    if a != b && self.st.string_forms != 0 && self.rng.bool() {
                        std::mem::swap(&mut a, &mut b);
                    }
                    if a != b || (self.st.string_forms != 0 && self.rng.bool()) {
                        self.num(a as u64);
                        self.raw(b":");
                        self.num(b as u64);
                    } else {
                        self.num(a as u64);
                    }
                }
            }
            Response::Fetch(n, attrs) => {
                assert!(!attrs.is_empty(), "empty FETCH attribute list is not printable");
                self.raw(b"* ");
                self.num(*n as u64);
                self.sp();
                self.kw("FETCH");
                self.sp();
                self.raw(b"(");
                for (i, a) in attrs.iter().enumerate() {
                    if i > 0 {
                        self.sp();
                    }
                    self.attribute(a);
                }
                self.raw(b")");
            }
            Response::MailboxData(d) => {
                self.raw(b"* ");
                self.mailbox_datum(d);
            }
            Response::Quota(q) => {
                // quota_response ::= "QUOTA" SP astring SP "(" #quota_resource ")"
                // quota_resource ::= atom SP number SP number
                self.raw(b"* ");
                self.kw("QUOTA");
                self.wsp();
                self.astring(q.root_name.as_bytes());
                self.wsp();
                self.raw(b"(");
                for (i, res) in q.resources.iter().enumerate() {
                    if i > 0 {
                        self.wsp();
                    }
                    match &res.name {
                        QuotaResourceName::Storage => self.kw("STORAGE"),
                        QuotaResourceName::Message => self.kw("MESSAGE"),
                        QuotaResourceName::Atom(a) => self.raw(a.as_bytes()),
                    }
                    self.wsp();
                    self.num(res.usage);
                    self.wsp();
                    self.num(res.limit);
                }
                self.raw(b")");
            }
            Response::QuotaRoot(q) => {
                // quotaroot_response ::= "QUOTAROOT" SP astring *(SP astring)
                self.raw(b"* ");
                self.kw("QUOTAROOT");
                self.wsp();
                self.astring(q.mailbox_name.as_bytes());
                for n in &q.quota_root_names {
                    self.wsp();
                    self.astring(n.as_bytes());
                }
            }
            Response::Id(m) => {
                // id_response ::= "ID" SPACE id_params_list
                self.raw(b"* ");
                self.kw("ID");
                self.wsp();
                match m {
                    None => self.nil(),
                    Some(m) => self.id_params(m),
                }
            }
            Response::Acl(a) => {
                // acl-data = "ACL" SP mailbox *(SP identifier SP rights)
                self.raw(b"* ");
                self.kw("ACL");
                self.wsp();
                self.mailbox(&a.mailbox);
                for e in &a.acls {
                    self.wsp();
                    self.astring(e.identifier.as_bytes());
                    self.wsp();
                    self.rights(&e.rights);
                }
            }
            Response::ListRights(l) => {
                // listrights-data = "LISTRIGHTS" SP mailbox SP identifier SP rights *(SP rights)
                self.raw(b"* ");
                self.kw("LISTRIGHTS");
                self.wsp();
                self.mailbox(&l.mailbox);
                self.wsp();
                self.astring(l.identifier.as_bytes());
                self.wsp();
                self.rights(&l.required);
                let mut i = 0;
                while i < l.optional.len() {
                    let n = if self.st.string_forms != 0 { self.rng.range(1, (l.optional.len() - i) as u64) as usize } else { 1 };
                    self.wsp();
                    self.rights(&l.optional[i..i + n]);
                    i += n;
                }
            }
            Response::MyRights(m) => {
                // myrights-data = "MYRIGHTS" SP mailbox SP rights
                self.raw(b"* ");
                self.kw("MYRIGHTS");
                self.wsp();
                self.mailbox(&m.mailbox);
                self.wsp();
                self.rights(&m.rights);
            }
            _ => panic!("unprintable response {r:?}"),
        }
        if trailing && self.dev(1, 4) {
            let n = self.rng.range(1, 3);
            for _ in 0..n {
                self.sp();
            }
        }
        self.crlf();
    }
}

/// Full response line(s) including the final CRLF.
pub fn print_response(r: &Response, rng: &mut Rng, st: &Style) -> Vec<u8> {
    let mut p = Pr { o: Vec::new(), rng, st };
    p.response(r);
    p.o
}
