//! Pieces shared by the parser-side checks: running the real parser, the independent lexical framer,
//! the built-in seed corpus and the mutation generators.

use crate::prng::Rng;
use crate::ser;
use imap_proto::Response;

/// Observable of `Response::from_bytes`, canonicalised: `OK <consumed> <value>` | `INC` | `ERR` |
/// `PANIC` (Error and Failure are one class; error kinds, positions and `Needed` are not compared).
pub fn verdict(b: &[u8]) -> String {
    let r = std::panic::catch_unwind(|| match Response::from_bytes(b) {
        Ok((rem, val)) => format!("OK {} {}", b.len() - rem.len(), ser::response(&val)),
        Err(nom::Err::Incomplete(_)) => "INC".to_string(),
        Err(_) => "ERR".to_string(),
    });
    r.unwrap_or_else(|_| "PANIC".to_string())
}

pub fn class_of(v: &str) -> &str {
    if v.starts_with("OK") {
        "ok"
    } else if v == "INC" {
        "inc"
    } else if v == "ERR" {
        "err"
    } else {
        "panic"
    }
}

/// consumed length of an `OK` verdict
pub fn consumed_of(v: &str) -> Option<usize> {
    let mut it = v.split(' ');
    if it.next() != Some("OK") {
        return None;
    }
    it.next().and_then(|n| n.parse().ok())
}

/// The independent lexical framer of IMAP: scan to CRLF; if the line ends in `{n}` skip n bytes and
/// continue.  Returns the length of the first complete frame and whether it contains a literal.
pub fn frame_end(b: &[u8]) -> Option<(usize, bool)> {
    let mut pos = 0usize;
    let mut has_lit = false;
    loop {
        let mut i = pos;
        let mut found = None;
        while i + 1 < b.len() {
            if b[i] == 13 && b[i + 1] == 10 {
                found = Some(i);
                break;
            }
            i += 1;
        }
        let i = found?;
        let line = &b[pos..i];
        let mut n: Option<u128> = None;
        if line.last() == Some(&b'}') {
            let mut j = line.len() - 1;
            let mut ds = vec![];
            while j > 0 && line[j - 1].is_ascii_digit() {
                ds.push(line[j - 1]);
                j -= 1;
            }
            if j > 0 && line[j - 1] == b'{' && !ds.is_empty() && ds.len() < 30 {
                ds.reverse();
                n = std::str::from_utf8(&ds).unwrap().parse::<u128>().ok();
            } else if j > 0 && line[j - 1] == b'{' && !ds.is_empty() {
                n = Some(u128::MAX / 4);
            }
        }
        match n {
            None => return Some((i + 2, has_lit)),
            Some(n) => {
                has_lit = true;
                let end = (i as u128) + 2 + n;
                if end > b.len() as u128 {
                    return None;
                }
                pos = end as usize;
            }
        }
    }
}

pub const SEEDS: &[&[u8]] = &[
    b"* 0004294967295 EXISTS\r\n",
    b"* 1 FETCH (BODYSTRUCTURE ((\"TEXT\" \"PLAIN\" (\"CHARSET\" \"US-ASCII\") NIL NIL \"7BIT\" 1152 23)(\"TEXT\" \"PLAIN\" (\"CHARSET\" \"US-ASCII\" \"NAME\" \"cc.diff\") \"<960723163407.20117h@cac.washington.edu>\" \"Compiler diff\" \"BASE64\" 4554 73) \"MIXED\"))\r\n",
    b"* 1 FETCH (BODYSTRUCTURE (\"A\" \"B\" (\"k\" \"v\") \"id\" \"d\" \"base64\" 1 \"md5\" (\"att\" (\"f\" \"n\")) (\"en\" \"de\") \"loc\" (1 \"x\" (NIL 2))))\r\n",
    b"* 1 FETCH (BODYSTRUCTURE (\"MESSAGE\" \"RFC822\" NIL NIL NIL \"7BIT\" 100 (NIL NIL NIL NIL NIL NIL NIL NIL NIL NIL) (\"TEXT\" \"PLAIN\" NIL NIL NIL \"7BIT\" 1 1) 5 NIL NIL NIL NIL))\r\n",
    b"* 1 FETCH (BODYSTRUCTURE ((\"a\" \"b\" NIL NIL NIL \"8bit\" 1)((\"c\" \"d\" NIL NIL NIL \"binary\" 2) \"x\") \"y\" (\"p\" \"q\") (\"inline\" NIL) NIL \"loc\" 5))\r\n",
    b"* 1 FETCH (BODY[1.2.MIME]<5> NIL)\r\n",
    b"* 1 FETCH (BODY[HEADER.FIELDS (DATE FROM)] {3}\r\nabc)\r\n",
    b"* 1 FETCH (BODY[HEADER.FIELDS.NOT (DATE)] \"x\")\r\n",
    b"* 1 FETCH (BODY[HEADER] NIL BODY[TEXT] NIL BODY[3.TEXT] NIL BODY[4.HEADER] NIL)\r\n",
    b"* 1 FETCH (ENVELOPE (nil NIL ((nil NIL \"a\" \"b\")(NIL NIL \"c\" \"d\")) NIL NIL NIL NIL NIL NIL NIL))\r\n",
    b"* 12 FETCH (ENVELOPE (\"Wed, 17 Jul 1996 02:23:25 -0700 (PDT)\" \"IMAP4rev1 WG mtg summary and minutes\" ((\"Terry Gray\" NIL \"gray\" \"cac.washington.edu\")) ((\"Terry Gray\" NIL \"gray\" \"cac.washington.edu\")) ((\"Terry Gray\" NIL \"gray\" \"cac.washington.edu\")) ((NIL NIL \"imap\" \"cac.washington.edu\")) ((NIL NIL \"minutes\" \"CNRI.Reston.VA.US\") (\"John Klensin\" NIL \"KLENSIN\" \"MIT.EDU\")) NIL NIL \"<B27397-0100000@cac.washington.edu>\"))\r\n",
    b"* 1 FETCH (FLAGS (\\* a]b))\r\n",
    b"* 1 FETCH (INTERNALDATE \"17-Jul-1996 02:44:25 -0700\")\r\n",
    b"* 1 FETCH (MODSEQ (18446744073709551615))\r\n",
    b"* 1 FETCH (RFC822.HEADER  {3}\r\nabc)\r\n",
    b"* 1 FETCH (UID 1 BODY[HEADER.FIELDS (CHAT-VERSION)] {21}\r\nChat-Version: 1.0\r\n\r\n)\r\n",
    b"* 1 FETCH (UID 5 RFC822.SIZE 10 FLAGS (\\Seen) RFC822 {3}\r\nabc RFC822.TEXT NIL X-GM-MSGID 7 MODSEQ (9))\r\n",
    b"* 1 FETCH (X-GM-LABELS (\\Inbox \"a b\" foo))\r\n",
    b"* 1 fetch (uid 5)\r\n",
    b"* 2 FETCH (BODY[TEXT] {3}\r\nfoo)\r\n",
    b"* 3501 EXISTS\r\n",
    b"* 3501 EXPUNGE\r\n",
    b"* 5 RECENT\r\n",
    b"* ACL INBOX a lr b \"\"\r\n",
    b"* ACL INBOX user lrswipkxtecdan user2 lr\r\n",
    b"* ACL INBOX\r\n",
    b"* BYE Autologout; idle for too long\r\n",
    b"* BYE\r\n",
    b"* CAPABILITY IMAP4rev1 AUTH=PLAIN XPIG-LATIN\r\n",
    b"* CAPABILITY IMAP4rev1 AUTH=\r\n",
    b"* ENABLED QRESYNC X-GOOD-IDEA\r\n",
    b"* ENABLED\r\n",
    b"* FLAGS ()\r\n",
    b"* FLAGS (OIB-Seen-[Gmail]/All)\r\n",
    b"* FLAGS (\\Answered \\Flagged \\Deleted \\Seen \\Draft \\*)\r\n",
    b"* ID (\"a\" \"b\" )\r\n",
    b"* ID (\"name\" \"x\" \"v\" NIL)\r\n",
    b"* ID (\"name\" \"Cyrus\" \"version\" \"1.5\" \"os\" {5}\r\nsunos)\r\n",
    b"* ID NIL\r\n",
    b"* LIST () \"/\" {3}\r\nfoo\r\n",
    b"* LIST (\\Noselect \\HasChildren) \".\" INBOX\r\n",
    b"* LIST (\\Marked \\Trash) NIL \"a b\"\r\n",
    b"* LISTRIGHTS INBOX u \"\" l r\r\n",
    b"* LISTRIGHTS INBOX user lkr x c\r\n",
    b"* LISTRIGHTS INBOX user lkr\r\n",
    b"* LSUB () NIL inbox\r\n",
    b"* METADATA \"\" (/shared/comment NIL)\r\n",
    b"* METADATA \"\" /shared/comment /private/comment\r\n",
    b"* METADATA \"a\" (/shared/vendor/x/y {2}\r\nab /private/comment NIL)\r\n",
    b"* METADATA \"INBOX\" (/shared/admin \"x\")\r\n",
    b"* METADATA \"INBOX\" (/private/vendor/vendor.dovecot/webpush/vapid \"k\")\r\n",
    b"* MYRIGHTS INBOX lkxca\r\n",
    b"* MYRIGHTS {5}\r\ninbox lr\r\n",
    b"* NO [BADCHARSET (utf-8 latin1)] error\r\n",
    b"* NO [BADCHARSET] error\r\n",
    b"* NO [PARSE] Something\r\n",
    b"* NO [UIDNOTSTICKY] Non-persistent UIDs\r\n",
    b"* NO [XFOO] bar\r\n",
    b"* OK [ALERT] Alert!\r\n",
    b"* OK [ALERT]\r\n",
    b"* OK [APPENDUID 38505 3955] APPEND completed\r\n",
    b"* OK [CAPABILITY IMAP4rev1 IDLE QUOTA] Logged in\r\n",
    b"* OK [COPYUID 38505 304,319:320 3956:3958] Done\r\n",
    b"* OK [HIGHESTMODSEQ 715194045007] x\r\n",
    b"* OK [METADATA LONGENTRIES 5] x\r\n",
    b"* OK [METADATA MAXSIZE 1024] x\r\n",
    b"* NO [METADATA TOOMANY] x\r\n",
    b"* NO [METADATA NOPRIVATE] x\r\n",
    b"* OK [PERMANENTFLAGS (\\* \\Seen)] x\r\n",
    b"* OK [UIDNEXT 4294967295] x\r\n",
    b"* OK [UIDVALIDITY 3857529045] UIDs valid\r\n",
    b"* OK [READ-ONLY] x\r\n",
    b"* OK [UNSEEN 3] Message 3 is first unseen\r\n",
    b"* OK [Mail] x\r\n",
    b"* OK [U] x\r\n",
    b"* OK\r\n",
    b"* PREAUTH x\r\n",
    b"* QUOTA \"\"  (STORAGE 1  2)\r\n",
    b"* QUOTA \"\" (STORAGE 10 512 MESSAGE 3 4 X-FOO 5 6)\r\n",
    b"* QUOTAROOT INBOX \"\" a\r\n",
    b"* QUOTAROOT INBOX\r\n",
    b"* SEARCH 1 2 \r\n",
    b"* SEARCH\r\n",
    b"* SORT 1 2\r\n",
    b"* STATUS Sent (UIDNEXT 107) \r\n",
    b"* STATUS blurdybloop (MESSAGES 231 UIDNEXT 44292 HIGHESTMODSEQ 7011231777)\r\n",
    b"* STATUS foo ()\r\n",
    b"* VANISHED (EARLIER) 1,2,3:8\r\n",
    b"* VANISHED 1,2,3:8,10\r\n",
    b"* X-GM-MSGID 5\r\n",
    b"* X-GM-LABELS (\\Inbox foo)\r\n",
    b"+ \r\n",
    b"+ idling\r\n",
    b"+\r\n",
    b"+idle\r\n",
    b"+ [ALERT] x\r\n",
    b"A0001 BAD x\r\n",
    b"A0001 NO [TRYCREATE] nope\r\n",
    b"A0001 OK [READ-WRITE] done\r\n",
    b"a1 ok \r\n",
    b"a1 ok\r\n",
    b"A0002 OK [UNSEEN 17]\r\n",
];

pub const TOKENS: &[&[u8]] = &[
    b"NIL", b"nil", b"/vendor", b"/private", b"/shared", b"/comment", b"/admin", b"/", b"(", b")",
    b"\"", b" ", b"  ", b"{3}\r\nabc", b"{0}\r\n", b"{2}\r\n\xff\xfe", b"{1}\r\n\x00", b"[", b"]",
    b"[Mail]", b"[U]", b"INBOX", b"1", b"4294967296", b"*", b"\\", b"\\*", b"OK", b"BODY",
    b"BODYSTRUCTURE", b"FETCH", b"\r\n", b"\r", b"\n", b"\t", b"\"\"", b"\"a\\\"b\"", b"\"\\a\"",
    b"<", b">", b".", b":", b",", b"+", b"=", b"\x80", b"\xc3\xa9", b"\x00", b"ID", b"ACL",
    b"MYRIGHTS", b"LISTRIGHTS", b"METADATA", b"QUOTA", b"QUOTAROOT", b"VANISHED", b"(EARLIER)",
    b"HEADER.FIELDS", b".NOT", b"MIME", b"TEXT", b"\"TEXT\"", b"\"MESSAGE\" \"RFC822\"",
    b"IMAP4rev1", b"AUTH=", b"CAPABILITY", b"X-GM-LABELS", b"X-GM-MSGID", b"MODSEQ",
];

/// positions where a "token" starts: after a space, paren or bracket, or at 0
fn token_starts(b: &[u8]) -> Vec<usize> {
    let mut v = vec![0usize];
    for i in 0..b.len() {
        if matches!(b[i], b' ' | b'(' | b'[' | b'"' | b')') && i + 1 <= b.len() {
            v.push(i + 1);
            v.push(i);
        }
    }
    v.sort();
    v.dedup();
    v
}

fn token_end(b: &[u8], pos: usize) -> usize {
    let mut j = pos;
    while j < b.len() && !matches!(b[j], b' ' | b')' | b']' | 13) {
        j += 1;
    }
    j
}

/// One random mutant of `seed` (token insertion / replacement / deletion, byte flip, splice,
/// string-form substitution, numeral substitution, truncation).
pub fn mutate(rng: &mut Rng, seed: &[u8], other: &[u8]) -> (Vec<u8>, &'static str) {
    let starts = token_starts(seed);
    let pos = *rng.pick(&starts);
    match rng.below(13) {
        10 => {
            // delete the tail of a token: from a random byte to the end of the token it is in
            let i = rng.usize(seed.len() + 1);
            let e = token_end(seed, i);
            let mut m = seed[..i].to_vec();
            m.extend_from_slice(&seed[e..]);
            (m, "token-tail-delete")
        }
        11 | 12 => {
            // insert a short substring of the seed itself at a token boundary
            if seed.is_empty() {
                return (vec![], "self-insert");
            }
            let a = rng.usize(seed.len());
            let l = 1 + rng.usize(3);
            let b = std::cmp::min(seed.len(), a + l);
            let mut m = seed[..pos].to_vec();
            m.extend_from_slice(&seed[a..b]);
            m.extend_from_slice(&seed[pos..]);
            (m, "self-insert")
        }
        0 => {
            // insert token
            let t = *rng.pick(TOKENS);
            let mut m = seed[..pos].to_vec();
            m.extend_from_slice(t);
            m.extend_from_slice(&seed[pos..]);
            (m, "token-insert")
        }
        1 | 2 => {
            // replace token
            let t = *rng.pick(TOKENS);
            let e = token_end(seed, pos);
            let mut m = seed[..pos].to_vec();
            m.extend_from_slice(t);
            m.extend_from_slice(&seed[e..]);
            (m, "token-replace")
        }
        3 => {
            let e = token_end(seed, pos);
            let mut m = seed[..pos].to_vec();
            m.extend_from_slice(&seed[e..]);
            (m, "token-delete")
        }
        4 => {
            let mut m = seed.to_vec();
            if !m.is_empty() {
                let i = rng.usize(m.len());
                m[i] = match rng.below(4) {
                    0 => m[i] ^ (1 << rng.below(8)),
                    1 => rng.below(256) as u8,
                    2 => m[i] ^ 0x20,
                    _ => *rng.pick(&[0u8, 13, 10, 34, 40, 41, 92, 123, 125, 127, 128, 255]),
                };
            }
            (m, "byte-flip")
        }
        5 => {
            // splice: prefix of seed + suffix of other
            let i = rng.usize(seed.len() + 1);
            let j = rng.usize(other.len() + 1);
            let mut m = seed[..i].to_vec();
            m.extend_from_slice(&other[j..]);
            (m, "splice")
        }
        6 => {
            // string-form substitution at a quoted string or NIL
            let mut m = seed.to_vec();
            if let Some(q) = find_quoted(seed, rng) {
                let content = seed[q.0 + 1..q.1].to_vec();
                let rep: Vec<u8> = match rng.below(6) {
                    0 => b"NIL".to_vec(),
                    1 => lit(&content),
                    2 => lit(b"\xff\xfe\x80"),
                    3 => lit(b"a\x00b"),
                    4 => lit(b")\r\nA0001 OK done\r\n"),
                    _ => lit(b""),
                };
                m = seed[..q.0].to_vec();
                m.extend_from_slice(&rep);
                m.extend_from_slice(&seed[q.1 + 1..]);
            } else if let Some(p) = find_sub(seed, b"NIL", rng) {
                let rep: Vec<u8> = match rng.below(3) {
                    0 => b"\"x\"".to_vec(),
                    1 => lit(b"\xc3\x28"),
                    _ => lit(b"x y"),
                };
                m = seed[..p].to_vec();
                m.extend_from_slice(&rep);
                m.extend_from_slice(&seed[p + 3..]);
            }
            (m, "string-form")
        }
        7 => {
            // numeral substitution
            let mut m = seed.to_vec();
            if let Some((a, b)) = find_digits(seed, rng) {
                let n = *rng.pick(NUMERALS);
                m = seed[..a].to_vec();
                m.extend_from_slice(n.as_bytes());
                m.extend_from_slice(&seed[b..]);
            }
            (m, "numeral")
        }
        8 => {
            let i = rng.usize(seed.len() + 1);
            (seed[..i].to_vec(), "truncate")
        }
        _ => {
            // duplicate a region
            let i = rng.usize(seed.len() + 1);
            let j = i + rng.usize(seed.len() - i + 1);
            let mut m = seed[..j].to_vec();
            m.extend_from_slice(&seed[i..]);
            (m, "duplicate")
        }
    }
}

pub const NUMERALS: &[&str] = &[
    "0",
    "1",
    "2147483647",
    "2147483648",
    "2147483649",
    "4294967294",
    "4294967295",
    "4294967296",
    "4294967297",
    "9223372036854775808",
    "18446744073709551614",
    "18446744073709551615",
    "18446744073709551616",
    "18446744073709551617",
    "99999999999999999999",
    "340282366920938463463374607431768211456",
    "0000000000000000000000000000005",
    "00000000000000000000000000000004294967296",
];

pub fn lit(content: &[u8]) -> Vec<u8> {
    let mut v = format!("{{{}}}\r\n", content.len()).into_bytes();
    v.extend_from_slice(content);
    v
}

fn find_quoted(b: &[u8], rng: &mut Rng) -> Option<(usize, usize)> {
    let mut found = vec![];
    let mut i = 0;
    while i < b.len() {
        if b[i] == b'"' {
            let mut j = i + 1;
            while j < b.len() && b[j] != b'"' {
                if b[j] == b'\\' {
                    j += 1;
                }
                j += 1;
            }
            if j < b.len() {
                found.push((i, j));
                i = j + 1;
                continue;
            }
        }
        i += 1;
    }
    if found.is_empty() {
        None
    } else {
        Some(*rng.pick(&found))
    }
}

fn find_sub(b: &[u8], pat: &[u8], rng: &mut Rng) -> Option<usize> {
    let mut found = vec![];
    if b.len() >= pat.len() {
        for i in 0..=b.len() - pat.len() {
            if b[i..i + pat.len()].eq_ignore_ascii_case(pat) {
                found.push(i);
            }
        }
    }
    if found.is_empty() {
        None
    } else {
        Some(*rng.pick(&found))
    }
}

fn find_digits(b: &[u8], rng: &mut Rng) -> Option<(usize, usize)> {
    let mut found = vec![];
    let mut i = 0;
    while i < b.len() {
        if b[i].is_ascii_digit() {
            let mut j = i;
            while j < b.len() && b[j].is_ascii_digit() {
                j += 1;
            }
            found.push((i, j));
            i = j;
        } else {
            i += 1;
        }
    }
    if found.is_empty() {
        None
    } else {
        Some(*rng.pick(&found))
    }
}

/// inputs that nest parentheses `n` deep at each recursive position of the grammar
pub fn nesting_inputs(n: usize) -> Vec<(Vec<u8>, &'static str)> {
    let open = |k: usize| -> Vec<u8> { vec![b'('; k] };
    let mut v = vec![];
    // body structure: multipart children
    let mut a = b"* 1 FETCH (BODYSTRUCTURE ".to_vec();
    a.extend(open(n));
    v.push((a, "bodystructure-open"));
    // complete, well-formed nested multiparts
    let mut b = b"* 1 FETCH (BODYSTRUCTURE ".to_vec();
    b.extend(open(n));
    b.extend_from_slice(b"(\"a\" \"b\" NIL NIL NIL \"7bit\" 1)");
    for _ in 0..n {
        b.extend_from_slice(b" \"m\")");
    }
    b.extend_from_slice(b")\r\n");
    v.push((b, "bodystructure-multipart"));
    // message/rfc822 nesting
    let mut c = b"* 1 FETCH (BODYSTRUCTURE ".to_vec();
    for _ in 0..n {
        c.extend_from_slice(
            b"(\"MESSAGE\" \"RFC822\" NIL NIL NIL \"7BIT\" 1 (NIL NIL NIL NIL NIL NIL NIL NIL NIL NIL) ",
        );
    }
    c.extend_from_slice(b"(\"a\" \"b\" NIL NIL NIL \"7bit\" 1)");
    for _ in 0..n {
        c.extend_from_slice(b" 1)");
    }
    c.extend_from_slice(b")\r\n");
    v.push((c, "bodystructure-message"));
    // body extension lists
    let mut d = b"* 1 FETCH (BODYSTRUCTURE (\"a\" \"b\" NIL NIL NIL \"7bit\" 1 NIL NIL NIL NIL ".to_vec();
    d.extend(open(n));
    v.push((d, "extension-open"));
    let mut e = b"* 1 FETCH (BODYSTRUCTURE (\"a\" \"b\" NIL NIL NIL \"7bit\" 1 NIL NIL NIL NIL ".to_vec();
    e.extend(open(n));
    e.extend_from_slice(b"1");
    e.extend(vec![b')'; n]);
    e.extend_from_slice(b"))\r\n");
    v.push((e, "extension-closed"));
    // multipart extension position
    let mut f = b"* 1 FETCH (BODYSTRUCTURE ((\"a\" \"b\" NIL NIL NIL \"7bit\" 1) \"m\" NIL NIL NIL NIL ".to_vec();
    f.extend(open(n));
    v.push((f, "mpart-extension-open"));
    v
}

/// complete, well-formed FETCH responses whose BODY / BODYSTRUCTURE nests `d` levels, for every way of
/// nesting: message/rfc822 in message/rfc822 (a chain of forwards), multipart in multipart, the two
/// alternating (forwards of multipart messages), and a chain with siblings at every level.  Used around
/// the parser's nesting budget: what the model reads, the implementation has to read.
pub fn nesting_boundary_inputs(d: usize) -> Vec<(Vec<u8>, String)> {
    const LEAF: &str = "(\"TEXT\" \"PLAIN\" NIL NIL NIL \"7BIT\" 12 1)";
    let msg = |inner: &str| -> String {
        format!("(\"MESSAGE\" \"RFC822\" NIL NIL NIL \"7BIT\" 345 (NIL \"Fwd\" NIL NIL NIL NIL NIL NIL NIL NIL) {} 7)", inner)
    };
    let multi = |inner: &str| -> String { format!("({} \"MIXED\")", inner) };
    let multi_sib = |inner: &str| -> String { format!("({}{} \"MIXED\")", LEAF, inner) };
    let mut v = vec![];
    for (kind, f) in [("message", 0usize), ("multipart", 1), ("message-over-multipart", 2), ("multipart-over-message", 3), ("multipart-with-sibling", 4)] {
        let mut body = LEAF.to_string();
        for lvl in 0..d {
            body = match f {
                0 => msg(&body),
                1 => multi(&body),
                2 => if (d - lvl) % 2 == 1 { msg(&body) } else { multi(&body) },
                3 => if (d - lvl) % 2 == 1 { multi(&body) } else { msg(&body) },
                _ => multi_sib(&body),
            };
        }
        for item in ["BODY", "BODYSTRUCTURE"] {
            v.push((format!("* 7 FETCH ({} {})\r\n", item, body).into_bytes(), format!("nesting:{}:{}:{}", kind, item, d)));
        }
    }
    v
}
