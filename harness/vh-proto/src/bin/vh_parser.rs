//! Parser-side correspondence + property oracles (C01, C02, C09, C13; with the value generator also
//! C03, C08, C12, C16 - see vh_values).  Every input is evaluated by the real
//! `imap_proto::Response::from_bytes` in-process and by the Lean model (`imapmodel`, line protocol);
//! the two outputs are compared (correspondence) and the implementation's output is judged by the
//! property oracle.  The two kinds of failure are logged separately.

use std::sync::Mutex;
use vh_proto::gen::{gen_response_kind, GenCfg, KINDS};
use vh_proto::parsecommon::*;
use vh_proto::print::{print_response, Style};
use vh_proto::prng::{hex, unhex, Rng};
use vh_proto::run::*;

struct Ctx {
    model: Model,
    log: Log,
    ops: Vec<String>,
    imps: Vec<String>,
    notes: Vec<&'static str>,
    prop: String,
    /// inputs on which implementation and model differed: the directed search starts from these
    suspects: Vec<Vec<u8>>,
}

impl Ctx {
    fn new(model_path: &str, prop: &str) -> Ctx {
        Ctx {
            model: Model::spawn(model_path).expect("spawn model driver"),
            log: Log::default(),
            ops: vec![],
            imps: vec![],
            notes: vec![],
            prop: prop.to_string(),
            suspects: vec![],
        }
    }

    /// evaluate on the implementation now, queue for the model
    fn eval(&mut self, b: &[u8], note: &'static str) -> String {
        let v = verdict(b);
        self.log.evaluations += 1;
        self.log.count(&format!("gen:{}", note));
        self.log.count(&format!("verdict:{}", class_of(&v)));
        let op = format!("parse {}", hex(b));
        self.ops.push(op);
        self.imps.push(v.clone());
        self.notes.push(note);
        if self.ops.len() >= 4000 {
            self.flush();
        }
        v
    }

    fn flush(&mut self) {
        if self.ops.is_empty() {
            return;
        }
        let replies = self.model.eval_batch(&self.ops);
        let mut bad = vec![];
        for i in 0..self.ops.len() {
            self.log.compared += 1;
            if replies[i] != self.imps[i] {
                bad.push(i);
            }
        }
        for i in bad {
            if self.suspects.len() < 40 {
                let h = self.ops[i].split(' ').nth(1).unwrap_or("").to_string();
                self.suspects.push(unhex(&h));
            }
            let d = Disagreement {
                op: self.ops[i].clone(),
                imp: clip(&self.imps[i]),
                model: clip(&replies[i]),
                note: self.notes[i].to_string(),
            };
            self.log.disagree(d);
        }
        self.ops.clear();
        self.imps.clear();
        self.notes.clear();
    }

    fn fail(&mut self, class: &str, what: String, inputs: &[&[u8]]) {
        let ops = inputs.iter().map(|b| format!("parse {}", hex(b))).collect();
        self.log.oracle_fail(OracleFailure {
            class: class.to_string(),
            what,
            ops,
            known: String::new(),
        });
    }
}

fn clip(s: &str) -> String {
    if s.len() > 600 {
        format!("{}...", &s[..600])
    } else {
        s.to_string()
    }
}

// ------------------------------------------------------------------------------------------------
// oracles

/// C01: no panic.  Returns the verdict.
/// Shrink a failing input: remove chunks (halves, quarters, ... single bytes) as long as `fails`
/// still holds, with a budget of implementation evaluations.  Only the implementation is consulted.
fn shrink(b: &[u8], fails: &dyn Fn(&[u8]) -> bool) -> Vec<u8> {
    let mut cur = b.to_vec();
    let mut budget = 600usize;
    let mut chunk = std::cmp::max(cur.len() / 2, 1);
    while chunk >= 1 && budget > 0 {
        let mut i = 0;
        let mut progress = false;
        while i < cur.len() && budget > 0 {
            let end = std::cmp::min(cur.len(), i + chunk);
            let mut cand = cur[..i].to_vec();
            cand.extend_from_slice(&cur[end..]);
            budget -= 1;
            if !cand.is_empty() && fails(&cand) {
                cur = cand;
                progress = true;
            } else {
                i += chunk;
            }
        }
        if chunk == 1 && !progress {
            break;
        }
        if !progress {
            chunk /= 2;
        }
    }
    cur
}

fn oracle_c01(ctx: &mut Ctx, b: &[u8], note: &'static str) -> String {
    let v = ctx.eval(b, note);
    if v == "PANIC" {
        let small = if ctx.log.n_oracle_failures < 20 { shrink(b, &|x| verdict(x) == "PANIC") } else { b.to_vec() };
        ctx.fail(
            "panic",
            format!("parser panicked on {} (found as {})", show_bytes(&small), show_bytes(b)),
            &[&small],
        );
    } else if class_of(&v) != "inc" || b.len() > 2 {
        ctx.log.nontrivial(&hex(b));
    }
    v
}

/// C02: verdict(B) in {ok, err} => verdict(B+X) the same.
fn oracle_c02_pair(ctx: &mut Ctx, b: &[u8], x: &[u8], note: &'static str) {
    let vb = ctx.eval(b, note);
    let c = class_of(&vb).to_string();
    if c == "inc" {
        return;
    }
    let mut bx = b.to_vec();
    bx.extend_from_slice(x);
    let vbx = ctx.eval(&bx, note);
    if !x.is_empty() {
        ctx.log.nontrivial(&format!("{}+{}", hex(b), hex(x)));
    }
    let same = match c.as_str() {
        "ok" => vbx == vb,
        "err" => vbx == "ERR",
        _ => vbx == vb,
    };
    if !same {
        ctx.fail(
            "verdict-changed",
            format!(
                "verdict of B = {} is {} but of B+X (X = {}) is {}",
                show_bytes(b),
                clip(&vb),
                show_bytes(x),
                clip(&vbx)
            ),
            &[b, &bx],
        );
    }
}

/// C02 corollary: every proper prefix of an accepted response is INC.
fn oracle_c02_prefixes(ctx: &mut Ctx, r: &[u8], cuts: &[usize], note: &'static str) {
    let v = ctx.eval(r, note);
    if consumed_of(&v) != Some(r.len()) {
        return;
    }
    for &k in cuts {
        if k >= r.len() {
            continue;
        }
        let p = &r[..k];
        let vp = ctx.eval(p, "prefix");
        ctx.log.nontrivial(&format!("{}@{}", hex(r), k));
        if vp != "INC" {
            ctx.fail(
                "prefix-not-incomplete",
                format!(
                    "prefix of length {} of accepted response {} gives {}",
                    k,
                    show_bytes(r),
                    clip(&vp)
                ),
                &[p, r],
            );
        }
    }
}

/// C09: lexically complete frame => verdict != INC; accepted without literal => ends at first CRLF.
fn oracle_c09(ctx: &mut Ctx, b: &[u8], note: &'static str) {
    let fe = frame_end(b);
    let v = ctx.eval(b, note);
    if let Some((end, has_lit)) = fe {
        ctx.log.nontrivial(&hex(b));
        ctx.log.count(if has_lit { "frame:literal" } else { "frame:plain" });
        if v == "INC" {
            let small = if ctx.log.n_oracle_failures < 20 {
                shrink(b, &|x| frame_end(x).is_some() && verdict(x) == "INC")
            } else {
                b.to_vec()
            };
            ctx.fail(
                "stalled",
                format!(
                    "buffer holds a complete frame but the parser answers Incomplete: {} (found as {})",
                    show_bytes(&small),
                    show_bytes(b)
                ),
                &[&small],
            );
        } else if !has_lit {
            if let Some(n) = consumed_of(&v) {
                if n != end {
                    ctx.fail(
                        "wrong-end",
                        format!(
                            "accepted response without literal consumed {} bytes, first CRLF ends at {}: {}",
                            n,
                            end,
                            show_bytes(b)
                        ),
                        &[b],
                    );
                }
            }
        }
    }
}

/// Directed search around an input on which implementation and model disagree: run the property's
/// oracle on its prefixes, extensions and mutants, looking for a concrete failing input.
fn search_around(ctx: &mut Ctx, rng: &mut Rng, b: &[u8]) {
    let prop = ctx.prop.clone();
    let conts: Vec<Vec<u8>> = vec![
        b"\r\n".to_vec(),
        b"* 1 EXISTS\r\n".to_vec(),
        b" ".to_vec(),
        b"x".to_vec(),
        b")\r\n".to_vec(),
        b"\"\r\n".to_vec(),
    ];
    let mut cands: Vec<Vec<u8>> = vec![b.to_vec()];
    let step = std::cmp::max(1, b.len() / 300);
    let mut k = 0;
    while k < b.len() {
        cands.push(b[..k].to_vec());
        k += step;
    }
    for x in &conts {
        let mut e = b.to_vec();
        e.extend_from_slice(x);
        cands.push(e);
    }
    for _ in 0..60 {
        let other = *rng.pick(SEEDS);
        let (m, _) = mutate(rng, b, other);
        cands.push(m);
    }
    ctx.log.count_n("search:candidates", cands.len() as u64);
    for c in cands {
        match prop.as_str() {
            "C02" => {
                for x in &conts {
                    oracle_c02_pair(ctx, &c, x, "search");
                }
                let v = verdict(&c);
                if let Some(n) = consumed_of(&v) {
                    let cuts: Vec<usize> = (0..n).collect();
                    oracle_c02_prefixes(ctx, &c[..n], &cuts, "search");
                }
            }
            "C09" => {
                oracle_c09(ctx, &c, "search");
                let mut e = c.clone();
                e.extend_from_slice(b"\r\n");
                oracle_c09(ctx, &e, "search");
            }
            _ => {
                oracle_c01(ctx, &c, "search");
            }
        }
    }
}

// ------------------------------------------------------------------------------------------------
// C13 templates: (template with {N}, bits, kind)   kind: 'r' reject whole response, 'c' code left as text

const NUM_TEMPLATES: &[(&str, u32, char)] = &[
    ("* {N} EXISTS\r\n", 32, 'r'),
    ("* {N} RECENT\r\n", 32, 'r'),
    ("* {N} EXPUNGE\r\n", 32, 'r'),
    ("* {N} FETCH (UID 1)\r\n", 32, 'r'),
    ("* 1 FETCH (UID {N})\r\n", 32, 'r'),
    ("* 1 FETCH (RFC822.SIZE {N})\r\n", 32, 'r'),
    ("* 1 FETCH (BODY[{N}] NIL)\r\n", 32, 'r'),
    ("* 1 FETCH (BODY[1.{N}.MIME] NIL)\r\n", 32, 'r'),
    ("* 1 FETCH (BODY[1.2.{N}] NIL)\r\n", 32, 'r'),
    ("* 1 FETCH (BODY[]<{N}> NIL)\r\n", 32, 'r'),
    ("* 1 FETCH (BODY[TEXT]<{N}> {2}\r\nab)\r\n", 32, 'r'),
    ("* SEARCH {N}\r\n", 32, 'r'),
    ("* SEARCH 1 {N} 3\r\n", 32, 'r'),
    ("* SORT {N}\r\n", 32, 'r'),
    ("* SORT 5 {N}\r\n", 32, 'r'),
    ("* STATUS x (MESSAGES {N})\r\n", 32, 'r'),
    ("* STATUS x (RECENT {N})\r\n", 32, 'r'),
    ("* STATUS x (UIDNEXT {N})\r\n", 32, 'r'),
    ("* STATUS x (UIDVALIDITY {N})\r\n", 32, 'r'),
    ("* STATUS x (UNSEEN {N})\r\n", 32, 'r'),
    ("* STATUS x (MESSAGES 1 UNSEEN {N})\r\n", 32, 'r'),
    ("* STATUS x (HIGHESTMODSEQ {N})\r\n", 64, 'r'),
    ("* OK [UIDNEXT {N}] x\r\n", 32, 'c'),
    ("* OK [UIDVALIDITY {N}] x\r\n", 32, 'c'),
    ("* OK [UNSEEN {N}] x\r\n", 32, 'c'),
    ("* OK [HIGHESTMODSEQ {N}] x\r\n", 64, 'c'),
    ("* OK [METADATA LONGENTRIES {N}] x\r\n", 64, 'c'),
    ("* OK [METADATA MAXSIZE {N}] x\r\n", 64, 'c'),
    ("* OK [APPENDUID {N} 1] x\r\n", 32, 'c'),
    ("* OK [APPENDUID 1 {N}] x\r\n", 32, 'c'),
    ("* OK [APPENDUID 1 {N}:4294967295] x\r\n", 32, 'c'),
    ("* OK [APPENDUID 1 0:{N}] x\r\n", 32, 'c'),
    ("* OK [APPENDUID 1 3,{N},9] x\r\n", 32, 'c'),
    ("* OK [COPYUID {N} 1 2] x\r\n", 32, 'c'),
    ("* OK [COPYUID 1 {N} 2] x\r\n", 32, 'c'),
    ("* OK [COPYUID 1 2 {N}] x\r\n", 32, 'c'),
    ("A1 OK [UIDNEXT {N}] x\r\n", 32, 'c'),
    ("+ [UNSEEN {N}] x\r\n", 32, 'c'),
    ("* VANISHED {N}\r\n", 32, 'r'),
    ("* VANISHED 0:{N}\r\n", 32, 'r'),
    ("* VANISHED (EARLIER) {N}:4294967295\r\n", 32, 'r'),
    ("* VANISHED 1,{N},3\r\n", 32, 'r'),
    ("* 1 FETCH (MODSEQ ({N}))\r\n", 64, 'r'),
    ("* 1 FETCH (X-GM-MSGID {N})\r\n", 64, 'r'),
    ("* X-GM-MSGID {N}\r\n", 64, 'r'),
    ("* QUOTA \"\" (STORAGE {N} 5)\r\n", 64, 'r'),
    ("* QUOTA \"\" (STORAGE 5 {N})\r\n", 64, 'r'),
    ("* QUOTA \"\" (X 1 2 MESSAGE {N} 5)\r\n", 64, 'r'),
    ("* 1 FETCH (BODYSTRUCTURE (\"A\" \"B\" NIL NIL NIL \"7BIT\" {N}))\r\n", 32, 'r'),
    ("* 1 FETCH (BODYSTRUCTURE (\"TEXT\" \"PLAIN\" NIL NIL NIL \"7BIT\" 1 {N}))\r\n", 32, 'r'),
    ("* 1 FETCH (BODYSTRUCTURE (\"TEXT\" \"PLAIN\" NIL NIL NIL \"7BIT\" {N} 1))\r\n", 32, 'r'),
    ("* 1 FETCH (BODYSTRUCTURE (\"MESSAGE\" \"RFC822\" NIL NIL NIL \"7BIT\" 100 (NIL NIL NIL NIL NIL NIL NIL NIL NIL NIL) (\"TEXT\" \"PLAIN\" NIL NIL NIL \"7BIT\" 1 1) {N}))\r\n", 32, 'r'),
    ("* 1 FETCH (BODYSTRUCTURE (\"A\" \"B\" NIL NIL NIL \"7BIT\" 1 NIL NIL NIL NIL {N}))\r\n", 32, 'r'),
    ("* 1 FETCH (BODYSTRUCTURE (\"A\" \"B\" NIL NIL NIL \"7BIT\" 1 NIL NIL NIL NIL (1 {N})))\r\n", 32, 'r'),
];

/// literal-length templates: `{N}` is the announced length, the content present is `abc`
const LIT_TEMPLATES: &[&str] = &[
    "* 1 FETCH (RFC822 {{N}}\r\nabc)\r\n",
    "* 1 FETCH (BODY[] {{N}}\r\nabc)\r\n",
    "* LIST () \"/\" {{N}}\r\nabc\r\n",
    "* 1 FETCH (ENVELOPE ({{N}}\r\nabc NIL NIL NIL NIL NIL NIL NIL NIL NIL))\r\n",
    "* ID (\"k\" {{N}}\r\nabc)\r\n",
];

/// things that look like numbers to a lenient conversion but are not 1*DIGIT ('.' and ',' are left out:
/// they are separators of the grammar itself in section paths and uid sets)
const DECORATED: &[&str] = &[
    "-1", "-0", "-5", "-100", "-2147483648", "-2147483649", "-4294967295", "-4294967296",
    "-9223372036854775808", "-18446744073709551615", "+1", "+0", "+5", "+4294967295", "+4294967296",
    "0x10", "0X1F", "0b11", "0o17", "1e3", "1E3", "1e0", "1_000", "1'000",
    "١٢٣", "１２３", "²", "1-", "1+", "--1", "-+1", "- 1", "-",
];

fn boundary_numerals(bits: u32) -> Vec<(u128, bool)> {
    // (value, in range)
    let lim: u128 = 1u128 << bits;
    let mut vals: Vec<u128> = vec![
        0,
        1,
        (1 << 31) - 1,
        1 << 31,
        (1 << 31) + 1,
        (1u128 << 32) - 2,
        (1u128 << 32) - 1,
        1u128 << 32,
        (1u128 << 32) + 1,
        (1u128 << 32) + 5,
        1u128 << 63,
        (1u128 << 64) - 2,
        (1u128 << 64) - 1,
        1u128 << 64,
        (1u128 << 64) + 1,
        (1u128 << 64) + 5,
        99_999_999_999_999_999_999u128,
        10u128.pow(29) + 7,
        10u128.pow(38) + 11,
    ];
    // every power of ten with its predecessor (digit-count changes) and the powers of two around the
    // byte / half-word / word boundaries with their neighbours
    for k in 1..=21u32 {
        vals.push(10u128.pow(k));
        vals.push(10u128.pow(k) - 1);
    }
    for k in [7u32, 8, 15, 16, 24, 33, 40, 48, 56, 62, 65] {
        vals.push((1u128 << k) - 1);
        vals.push(1u128 << k);
        vals.push((1u128 << k) + 1);
    }
    // constants of /repo's sources (srcdict.rs) with their neighbours, as values and as digit counts
    for (c, _new) in vh_proto::srcdict::dict().ints.iter() {
        let c = *c as u128;
        vals.push(c.saturating_sub(1));
        vals.push(c);
        vals.push(c + 1);
        if c >= 2 && c <= 38 {
            vals.push(10u128.pow(c as u32 - 1));
            vals.push(10u128.pow(c as u32) - 1);
        }
    }
    vals.sort();
    vals.dedup();
    vals.into_iter().map(|v| (v, v < lim)).collect()
}

fn subst(t: &str, n: &str) -> Vec<u8> {
    t.replace("{N}", n).into_bytes()
}

/// calibrate: parse the template with two different small numbers and find the single token of the
/// serialised value that differs; returns (prefix, suffix) of the expected serialisation.
fn calibrate(t: &str) -> Option<(String, String)> {
    let a = verdict(&subst(t, "3141"));
    let b = verdict(&subst(t, "2718"));
    if !a.starts_with("OK") || !b.starts_with("OK") {
        return None;
    }
    // drop "OK <consumed> "
    let sa = a.splitn(3, ' ').nth(2)?.to_string();
    let sb = b.splitn(3, ' ').nth(2)?.to_string();
    let ia = sa.find("3141")?;
    if sa.matches("3141").count() != 1 || sb.matches("2718").count() != 1 {
        return None;
    }
    let (pa, ra) = (&sa[..ia], &sa[ia + 4..]);
    if sb != format!("{}2718{}", pa, ra) {
        return None;
    }
    Some((pa.to_string(), ra.to_string()))
}

fn run_c13(ctx: &mut Ctx, rng: &mut Rng, thorough: bool) {
    let pads: &[usize] = if thorough { &[0, 1, 2, 7, 30] } else { &[0, 1, 30] };
    for (t, bits, kind) in NUM_TEMPLATES {
        let cal = calibrate(t);
        if cal.is_none() {
            ctx.log
                .notes
                .push(format!("template not calibratable on this tree: {}", show_bytes(t.as_bytes())));
            ctx.log.count("c13:uncalibrated");
            // still run for the correspondence and the no-wrap oracle below
        }
        for (val, in_range) in boundary_numerals(*bits) {
            for &pad in pads {
                let numeral = format!("{}{}", "0".repeat(pad), val);
                let input = subst(t, &numeral);
                let v = ctx.eval(&input, "c13-template");
                ctx.log.nontrivial(&hex(&input));
                ctx.log
                    .count(if in_range { "c13:in-range" } else { "c13:out-of-range" });
                let ser = v.splitn(3, ' ').nth(2).unwrap_or("").to_string();
                if in_range {
                    if let Some((p, s)) = &cal {
                        let expect = format!("{}{}{}", p, val, s);
                        if !(v.starts_with("OK") && ser == expect && consumed_of(&v) == Some(input.len())) {
                            ctx.fail(
                                "inexact-number",
                                format!(
                                    "numeral {} ({}-bit field) in {} should give exactly {}; got {}",
                                    numeral,
                                    bits,
                                    show_bytes(t.as_bytes()),
                                    val,
                                    clip(&v)
                                ),
                                &[&input],
                            );
                        }
                    }
                } else {
                    // out of range: error, or (code) left as text verbatim
                    let ok = match kind {
                        'r' => v == "ERR",
                        _ => {
                            // the bracketed code must be handed over verbatim as text
                            let body = &input[..input.len() - 2];
                            let txt_start = body.iter().position(|&c| c == b'[').unwrap();
                            let text = &body[txt_start..];
                            v.starts_with("OK")
                                && ser.contains(&format!("_ (S x{})", hex(text)))
                                && consumed_of(&v) == Some(input.len())
                        }
                    };
                    if !ok {
                        ctx.fail(
                            "wrapped-or-accepted",
                            format!(
                                "numeral {} exceeds the {}-bit field in {} but the result is {}",
                                numeral,
                                bits,
                                show_bytes(t.as_bytes()),
                                clip(&v)
                            ),
                            &[&input],
                        );
                    }
                }
            }
        }
    }
    // decorated numerals: a numeric field is 1*DIGIT and nothing else. A sign, a radix prefix, an
    // exponent, a fraction, a separator or a non-ASCII digit in that position is not a number of the
    // field's range: accepting it means some other conversion (signed, wider, radix-guessing) sits
    // behind the field, and its result can only be a value the text does not denote
    // (-1 read as 4294967295). Judged by the correspondence with the model, and for the plain
    // positions by the verdict, which has to be a parse error.
    for (t, bits, kind) in NUM_TEMPLATES {
        for d in DECORATED {
            let input = subst(t, d);
            let v = ctx.eval(&input, "c13-decorated");
            ctx.log.nontrivial(&hex(&input));
            ctx.log.count("c13:decorated");
            let ok = match kind {
                'r' => v == "ERR",
                _ => {
                    let body = &input[..input.len() - 2];
                    match body.iter().position(|&c| c == b'[') {
                        Some(p) => {
                            let ser = v.splitn(3, ' ').nth(2).unwrap_or("").to_string();
                            v == "ERR"
                                || (v.starts_with("OK")
                                    && ser.contains(&format!("_ (S x{})", hex(&body[p..])))
                                    && consumed_of(&v) == Some(input.len()))
                        }
                        None => v == "ERR",
                    }
                }
            };
            if !ok {
                ctx.fail(
                    "decorated-numeral-accepted",
                    format!(
                        "{} is not a numeral of the {}-bit field in {} but the result is {}",
                        d,
                        bits,
                        show_bytes(t.as_bytes()),
                        clip(&v)
                    ),
                    &[&input],
                );
            }
        }
    }
    // literal lengths that exceed 32 bits, in front of k = 0..5 content bytes: a length that wraps
    // modulo 2^32 (or 2^64) to k would be accepted
    for k in 0..6usize {
        let content = &b"abcde"[..k];
        for t in ["* 1 FETCH (RFC822 {{N}}\r\n{C})\r\n", "* 1 FETCH (BODY[TEXT] {{N}}\r\n{C} UID 7)\r\n", "* LIST () \"/\" {{N}}\r\n{C}\r\n"] {
            for base in [1u128 << 32, 1u128 << 64, 10 * (1u128 << 32), 42949672960000u128] {
                for d in 0..6u128 {
                    for &pad in pads {
                        let numeral = format!("{}{}", "0".repeat(pad), base + d);
                        let input = t
                            .replace("{N}", &numeral)
                            .replace("{C}", std::str::from_utf8(content).unwrap())
                            .into_bytes();
                        let v = ctx.eval(&input, "c13-literal-overflow");
                        ctx.log.nontrivial(&hex(&input));
                        if v != "ERR" {
                            ctx.fail(
                                "literal-length",
                                format!(
                                    "literal length {} does not fit 32 bits but {} gives {}",
                                    numeral,
                                    show_bytes(&input),
                                    clip(&v)
                                ),
                                &[&input],
                            );
                        }
                    }
                }
            }
        }
    }
    // literal lengths: content present is "abc" (3 bytes)
    for t in LIT_TEMPLATES {
        let full = verdict(&subst(t, "3"));
        for (val, _) in boundary_numerals(32) {
            for &pad in pads {
                let numeral = format!("{}{}", "0".repeat(pad), val);
                let input = subst(t, &numeral);
                let v = ctx.eval(&input, "c13-literal");
                ctx.log.nontrivial(&hex(&input));
                let ok = if val >= (1u128 << 32) {
                    v == "ERR"
                } else if val as usize > input.len() {
                    v == "INC"
                } else {
                    true // smaller lengths re-frame the rest; judged by the correspondence
                };
                if !ok {
                    ctx.fail(
                        "literal-length",
                        format!(
                            "literal length {} in {} gives {}",
                            numeral,
                            show_bytes(t.as_bytes()),
                            clip(&v)
                        ),
                        &[&input],
                    );
                }
            }
        }
        // exact length with padding must equal the unpadded parse
        for &pad in pads {
            let input = subst(t, &format!("{}3", "0".repeat(pad)));
            let v = ctx.eval(&input, "c13-literal");
            let strip = |s: &str| s.splitn(3, ' ').nth(2).unwrap_or("").to_string();
            if !(v.starts_with("OK") && strip(&v) == strip(&full)) {
                ctx.fail(
                    "literal-length",
                    format!("zero-padded literal length in {} gives {}", show_bytes(&input), clip(&v)),
                    &[&input],
                );
            }
        }
    }
    // random numerals at random positions of seeds (correspondence + no panic)
    let n = if thorough { 100_000 } else { 2_000 };
    for _ in 0..n {
        let seed = *rng.pick(SEEDS);
        let other = *rng.pick(SEEDS);
        let (m, _) = mutate_kind(rng, seed, other, 7);
        let v = ctx.eval(&m, "c13-random-numeral");
        if v == "PANIC" {
            ctx.fail("panic", format!("panic on {}", show_bytes(&m)), &[&m]);
        }
    }
    ctx.log
        .exhaustive
        .push("every template x boundary numeral x zero padding".to_string());
}

/// force a particular mutation kind by re-drawing
fn mutate_kind(rng: &mut Rng, seed: &[u8], other: &[u8], want: u64) -> (Vec<u8>, &'static str) {
    if want >= 10 {
        return mutate(rng, seed, other);
    }
    let names = [
        "token-insert",
        "token-replace",
        "token-replace",
        "token-delete",
        "byte-flip",
        "splice",
        "string-form",
        "numeral",
        "truncate",
        "duplicate",
    ];
    for _ in 0..200 {
        let (m, k) = mutate(rng, seed, other);
        if k == names[want as usize] {
            return (m, k);
        }
    }
    mutate(rng, seed, other)
}

// ------------------------------------------------------------------------------------------------

/// generated valid responses of every kind (type-directed values, independent RFC printer with
/// random encoding choices); `per_kind` responses for each of the generator's kinds
fn generated_seeds(seed: u64, per_kind: usize, max_lit: usize) -> Vec<Vec<u8>> {
    let mut rng = Rng::new(seed ^ 0x5eed);
    let mut v = vec![];
    for round in 0..per_kind {
        for k in 0..KINDS.len() {
            let cfg = GenCfg {
                max_depth: if round % 4 == 3 { 4 } else { 2 },
                adversarial: round % 2 == 1,
                max_str: 12,
                max_lit: if round % 8 == 7 { max_lit } else { 40 },
            };
            let r = std::panic::catch_unwind(|| {
                let mut rng2 = Rng::new(seed.wrapping_mul(7919).wrapping_add((round * 1000 + k) as u64));
                let val = gen_response_kind(&mut rng2, &cfg, k);
                let st = Style {
                    random_case: rng2.bool(),
                    string_forms: rng2.below(3) as u8,
                    zero_pad: if rng2.bool() { 0 } else { 3 },
                    deviations: rng2.bool(),
                    lsub: rng2.chance(1, 8),
                };
                print_response(&val, &mut rng2, &st)
            });
            if let Ok(b) = r {
                v.push(b);
            }
            let _ = &mut rng;
        }
    }
    v
}

/// directed passes: for every constant of /repo's sources that the baseline does not have (srcdict.rs)
/// valid responses of every kind generated with that constant in focus
fn focused_seeds(seed: u64, rounds: usize, max_lit: usize) -> Vec<Vec<u8>> {
    use vh_proto::srcdict;
    let mut v = vec![];
    for (fi, (fo, _name)) in srcdict::new_foci().into_iter().take(24).enumerate() {
        for round in 0..rounds {
            for k in 0..KINDS.len() {
                let cfg = GenCfg { max_depth: if round % 2 == 1 { 3 } else { 2 }, adversarial: round % 2 == 1, max_str: 12, max_lit };
                let r = std::panic::catch_unwind(|| {
                    srcdict::with_focus(fo, || {
                        let mut rng2 = Rng::new(seed.wrapping_mul(104729).wrapping_add((fi * 100_000 + round * 1000 + k) as u64));
                        let val = gen_response_kind(&mut rng2, &cfg, k);
                        let st = Style {
                            random_case: rng2.bool(),
                            string_forms: rng2.below(3) as u8,
                            zero_pad: if rng2.bool() { 0 } else { 3 },
                            deviations: rng2.bool(),
                            lsub: rng2.chance(1, 8),
                        };
                        print_response(&val, &mut rng2, &st)
                    })
                });
                if let Ok(b) = r {
                    v.push(b);
                }
            }
        }
    }
    v
}

static BUCKETS: std::sync::OnceLock<Vec<Vec<usize>>> = std::sync::OnceLock::new();

/// bucket key of a seed: its first two tokens with digits normalised (`* N FETCH`, `* METADATA`, ...)
/// plus the third token for FETCH / OK responses, so that rare response kinds get the same share of
/// the mutation budget as frequent ones
fn bucket_key(b: &[u8]) -> String {
    let s = String::from_utf8_lossy(&b[..std::cmp::min(b.len(), 48)]).to_uppercase();
    let toks: Vec<String> = s
        .split(|c: char| c == ' ' || c == '(' || c == '[')
        .filter(|t| !t.is_empty())
        .take(4)
        .map(|t| if t.chars().all(|c| c.is_ascii_digit()) { "N".to_string() } else { t.trim_end().to_string() })
        .collect();
    toks.join(" ")
}

fn init_buckets(seeds: &[Vec<u8>]) {
    let mut map: std::collections::BTreeMap<String, Vec<usize>> = std::collections::BTreeMap::new();
    for (i, s) in seeds.iter().enumerate() {
        map.entry(bucket_key(s)).or_default().push(i);
    }
    let _ = BUCKETS.set(map.into_values().collect());
}

/// half of the time uniform over response kinds (buckets), otherwise uniform over seeds
fn pick_seed(rng: &mut Rng, seeds: &[Vec<u8>]) -> Vec<u8> {
    if rng.bool() {
        if let Some(b) = BUCKETS.get() {
            let bucket = rng.pick(b);
            return seeds[*rng.pick(bucket)].clone();
        }
    }
    rng.pick(seeds).clone()
}

fn seeds_for(extra: &[Vec<u8>], gen: Vec<Vec<u8>>) -> Vec<Vec<u8>> {
    let mut v: Vec<Vec<u8>> = SEEDS.iter().map(|s| s.to_vec()).collect();
    v.extend(extra.iter().cloned());
    v.extend(gen);
    v
}

fn random_line(rng: &mut Rng) -> Vec<u8> {
    let n = rng.usize(40);
    let mut v = match rng.below(4) {
        0 => b"* ".to_vec(),
        1 => b"A1 ".to_vec(),
        2 => b"+ ".to_vec(),
        _ => vec![],
    };
    for _ in 0..n {
        v.push(match rng.below(8) {
            0 => *rng.pick(b" ()[]{}\"\\"),
            _ => rng.range(0x21, 0x7e) as u8,
        });
    }
    v.extend_from_slice(b"\r\n");
    v
}

fn run_c01(ctx: &mut Ctx, rng: &mut Rng, seeds: &[Vec<u8>], n: u64, shard: usize, shards: usize) {
    for (i, s) in seeds.iter().enumerate() {
        if i % shards == shard {
            oracle_c01(ctx, s, "seed");
        }
    }
    for _ in 0..n {
        let seed = pick_seed(rng, seeds);
        let other = rng.pick(seeds).clone();
        let (mut m, mut kind) = mutate(rng, &seed, &other);
        let extra = rng.below(3);
        for _ in 0..extra {
            let o2 = rng.pick(seeds).clone();
            let (m2, k2) = mutate(rng, &m, &o2);
            m = m2;
            kind = k2;
        }
        if m.len() > 65536 {
            m.truncate(65536);
        }
        oracle_c01(ctx, &m, kind);
    }
}

/// what may follow a buffer: nothing the verdict on the buffer may depend on.  Whole responses, several,
/// a response cut anywhere, an unfinished literal (a header announcing more bytes than follow - with sizes
/// from the usual boundaries and from /repo's own constants, so that the total crosses any threshold of
/// a 'big buffer' path), long filler, random bytes.
fn continuation(rng: &mut Rng, seeds: &[Vec<u8>], conts: &[Vec<u8>]) -> Vec<u8> {
    let size = |rng: &mut Rng, cap: u64| -> usize {
        match vh_proto::srcdict::int_le(rng, cap, 3) {
            Some(c) => c as usize,
            None => *rng.pick(&[0usize, 1, 5, 63, 64, 100, 255, 256, 1023, 1024, 4095, 4096, 4097, 8192, 16384, 65535, 65536, 100_000]),
        }
    };
    match rng.below(8) {
        0 => rng.pick(conts).clone(),
        1 => rng.pick(seeds).clone(),
        2 => {
            let mut v = vec![];
            for _ in 0..rng.range(2, 4) {
                let e: &Vec<u8> = rng.pick(seeds);
                v.extend_from_slice(e);
            }
            v
        }
        3 => {
            let r: &Vec<u8> = rng.pick(seeds);
            r[..rng.usize(r.len() + 1)].to_vec()
        }
        4 | 5 => {
            // responses, then an unfinished literal
            let mut v = vec![];
            for _ in 0..rng.below(3) {
                let e: &Vec<u8> = rng.pick(seeds);
                v.extend_from_slice(e);
            }
            let n = size(rng, 200_000).max(1);
            let head: &[u8] = *rng.pick(&[&b"* 2 FETCH (UID 8 BODY[] "[..], b"* 2 FETCH (RFC822 ", b"* LIST () \"/\" ", b"A1 OK [BADCHARSET (", b"* 1 FETCH (ENVELOPE (", b""]);
            v.extend_from_slice(head);
            v.extend_from_slice(format!("{{{}}}\r\n", n).as_bytes());
            let k = match rng.below(4) {
                0 => 0,
                1 => n - 1,
                2 => std::cmp::min(size(rng, 100_000), n - 1),
                _ => rng.usize(n),
            };
            let k = std::cmp::min(k, 70_000);
            v.extend((0..k).map(|j| b'a' + (j % 26) as u8));
            v
        }
        6 => {
            let l = std::cmp::min(size(rng, 100_000), 70_000);
            let c = *rng.pick(b"x \r\n(\"{");
            vec![c; l]
        }
        _ => (0..rng.usize(8)).map(|_| rng.below(256) as u8).collect(),
    }
}

fn run_c02(ctx: &mut Ctx, rng: &mut Rng, seeds: &[Vec<u8>], n_valid: u64, n_mut: u64, all_cuts: bool, shard: usize, shards: usize) {
    let conts: Vec<Vec<u8>> = vec![
        b"* 1 EXISTS\r\n".to_vec(),
        b"\x00\xff(".to_vec(),
        b" ".to_vec(),
        b"\r\n".to_vec(),
        b"x".to_vec(),
    ];
    for i in 0..n_valid {
        let idx = i as usize * shards + shard;
        let r = if idx < seeds.len() {
            seeds[idx].clone()
        } else {
            rng.pick(seeds).clone()
        };
        // every cut of responses up to 4 KiB (thorough) / 2 KiB (quick); beyond that a sample of cuts:
        // all prefixes of a 64 KiB response would be 64 Ki x 64 KiB of model traffic per response
        let cuts: Vec<usize> = if r.len() <= (if all_cuts { 4096 } else { 2048 }) {
            (0..r.len()).collect()
        } else {
            let mut c: Vec<usize> = (0..(if all_cuts { 3000 } else { 400 })).map(|_| rng.usize(r.len())).collect();
            c.extend((0..std::cmp::min(r.len(), 300)).map(|k| k));
            c.extend((r.len().saturating_sub(300)..r.len()).map(|k| k));
            c
        };
        oracle_c02_prefixes(ctx, &r, &cuts, "valid");
        for x in &conts {
            oracle_c02_pair(ctx, &r, x, "valid+cont");
        }
        let other = rng.pick(seeds).clone();
        oracle_c02_pair(ctx, &r, &other, "valid+response");
        for _ in 0..3 {
            let x = continuation(rng, seeds, &conts);
            oracle_c02_pair(ctx, &r, &x, "valid+continuation");
        }
        // every prefix followed by random continuation: verdict INC there, nothing to check; but
        // prefixes that are themselves verdicts (err) must be stable
        for _ in 0..3 {
            let k = rng.usize(r.len() + 1);
            let x = rng.pick(&conts).clone();
            oracle_c02_pair(ctx, &r[..k], &x, "prefix+cont");
        }
    }
    for _ in 0..n_mut {
        let seed = pick_seed(rng, seeds);
        let other = rng.pick(seeds).clone();
        let (m, kind) = mutate(rng, &seed, &other);
        let x = continuation(rng, seeds, &conts);
        oracle_c02_pair(ctx, &m, &x, kind);
        // prefixes of mutants that end in an accepted response
        let v = verdict(&m);
        if let Some(nc) = consumed_of(&v) {
            if nc > 0 && nc <= m.len() {
                let k = rng.usize(nc);
                oracle_c02_prefixes(ctx, &m[..nc], &[k, nc - 1], "mutant-accepted");
            }
        }
    }
}

fn run_c09(ctx: &mut Ctx, rng: &mut Rng, seeds: &[Vec<u8>], n: u64, shard: usize, shards: usize) {
    for (i, s) in seeds.iter().enumerate() {
        if i % shards == shard {
            oracle_c09(ctx, s, "seed");
        }
    }
    for _ in 0..n {
        let seed = pick_seed(rng, seeds);
        let other = rng.pick(seeds).clone();
        let mut b = match rng.below(10) {
            0 | 1 => random_line(rng),
            2..=5 => {
                let k = rng.below(4);
                let (m, _) = mutate_kind(rng, &seed, &other, k);
                m
            }
            _ => {
                // any mutation, keeping the line terminator so that the frame stays complete
                let (mut m, _) = mutate(rng, &seed, &other);
                if !m.ends_with(b"\r\n") {
                    m.extend_from_slice(b"\r\n");
                }
                m
            }
        };
        if rng.chance(1, 3) {
            // followed by further responses
            { let e = rng.pick(seeds).clone(); b.extend_from_slice(&e); }
            if rng.bool() {
                { let e = rng.pick(seeds).clone(); b.extend_from_slice(&e); }
            }
        }
        oracle_c09(ctx, &b, "line");
    }
}

// ------------------------------------------------------------------------------------------------
// nesting sweep in a child process with a 2 MiB thread stack (stack exhaustion kills the process)

fn child_nest(n: usize) {
    let inputs = nesting_inputs(n);
    let h = std::thread::Builder::new()
        .stack_size(2 * 1024 * 1024)
        .spawn(move || {
            for (b, name) in inputs {
                let v = verdict(&b);
                println!("{} {} {}", name, n, class_of(&v));
            }
        })
        .unwrap();
    let _ = h.join();
}

fn run_nesting(ctx: &mut Ctx, levels: &[usize]) {
    let exe = std::env::current_exe().unwrap();
    for &n in levels {
        let out = std::process::Command::new(&exe)
            .arg("--child-nest")
            .arg(n.to_string())
            .output()
            .expect("spawn nesting child");
        ctx.log.count("nesting:child-runs");
        let stdout = String::from_utf8_lossy(&out.stdout).to_string();
        let lines = stdout.lines().count();
        if !out.status.success() || lines != nesting_inputs(1).len() {
            let done = lines;
            let inputs = nesting_inputs(n);
            let culprit = inputs.get(done).map(|x| x.0.clone()).unwrap_or_default();
            let name = inputs.get(done).map(|x| x.1).unwrap_or("?");
            ctx.fail(
                "abort",
                format!(
                    "parsing {} nested {} levels on a 2 MiB thread ended the process abnormally (status {:?})",
                    name, n, out.status
                ),
                &[&culprit],
            );
        }
        // correspondence on the same inputs (the model has the same nesting budget)
        if n <= 5000 {
            for (b, _) in nesting_inputs(n) {
                // only inputs whose verdict we could observe in the child are evaluated in-process:
                // an in-process stack overflow would kill the harness, so evaluate only when the child survived
                if out.status.success() {
                    let v = ctx.eval(&b, "nesting");
                    ctx.log.nontrivial(&hex(&b));
                    if v == "PANIC" {
                        ctx.fail("panic", format!("panic at nesting {}", n), &[&b]);
                    }
                }
            }
        }
    }
}

// ------------------------------------------------------------------------------------------------

fn load_corpus(dir: &str) -> Vec<Vec<u8>> {
    let mut v = vec![];
    if let Ok(rd) = std::fs::read_dir(dir) {
        let mut paths: Vec<_> = rd.filter_map(|e| e.ok()).map(|e| e.path()).collect();
        paths.sort();
        for p in paths {
            if let Ok(s) = std::fs::read_to_string(&p) {
                for line in s.lines() {
                    let mut it = line.split_whitespace();
                    if it.next() == Some("parse") {
                        v.push(unhex(it.next().unwrap_or("")));
                    }
                }
            }
        }
    }
    v
}

/// the leaf tables of the model against the code, exhaustively: the nine byte classes of core.rs on
/// all 256 bytes, and UTF-8 validity (`std::str::from_utf8` vs `Bytes.validUtf8`) on every 1- and
/// 2-byte string with a non-ASCII lead and on the boundary families of 3- and 4-byte sequences
fn run_tables(ctx: &mut Ctx) {
    use imap_proto::parser::core as c;
    let preds: Vec<(&str, fn(u8) -> bool)> = vec![
        ("atom_char", c::is_atom_char),
        ("astring_char", c::is_astring_char),
        ("text_char", c::is_text_char),
        ("char8", c::is_char8),
        ("atom_specials", c::is_atom_specials),
        ("resp_specials", c::is_resp_specials),
        ("quoted_specials", c::is_quoted_specials),
        ("list_wildcards", c::is_list_wildcards),
        ("char", c::is_char),
    ];
    let mut ops: Vec<String> = vec![];
    let mut imps: Vec<String> = vec![];
    for (name, f) in &preds {
        for b in 0..=255u8 {
            ops.push(format!("pred {} {}", name, b));
            imps.push(if f(b) { "1".to_string() } else { "0".to_string() });
        }
    }
    let mut strings: Vec<Vec<u8>> = vec![vec![]];
    for a in 0..=255u8 {
        strings.push(vec![a]);
    }
    for a in 0x80..=255u8 {
        for b in 0..=255u8 {
            strings.push(vec![a, b]);
        }
    }
    // three- and four-byte sequences around the ranges of Unicode table 3-7
    for a in [0xE0u8, 0xE1, 0xEC, 0xED, 0xEE, 0xEF, 0xF0, 0xF1, 0xF3, 0xF4, 0xF5] {
        for b in [0x7Fu8, 0x80, 0x8F, 0x90, 0x9F, 0xA0, 0xBF, 0xC0] {
            for cc in [0x7Fu8, 0x80, 0xBF, 0xC0] {
                strings.push(vec![a, b, cc]);
                for d in [0x7Fu8, 0x80, 0xBF, 0xC0] {
                    strings.push(vec![a, b, cc, d]);
                    strings.push(vec![b'x', a, b, cc, d, b'y']);
                }
            }
        }
    }
    for sb in &strings {
        ops.push(if sb.is_empty() { "utf8".to_string() } else { format!("utf8 {}", hex(sb)) });
        imps.push(if std::str::from_utf8(sb).is_ok() { "1".to_string() } else { "0".to_string() });
    }
    let n = ops.len();
    for chunk in 0..((n + 3999) / 4000) {
        let lo = chunk * 4000;
        let hi = std::cmp::min(n, lo + 4000);
        let replies = ctx.model.eval_batch(&ops[lo..hi]);
        for i in lo..hi {
            ctx.log.compared += 1;
            ctx.log.evaluations += 1;
            if replies[i - lo] != imps[i] {
                ctx.log.disagree(Disagreement { op: ops[i].clone(), imp: imps[i].clone(), model: replies[i - lo].clone(), note: "leaf-table".to_string() });
            }
        }
    }
    ctx.log.count_n("tables:byte-class-entries", (preds.len() * 256) as u64);
    ctx.log.count_n("tables:utf8-strings", strings.len() as u64);
    ctx.log.exhaustive.push("the nine byte classes of core.rs on all 256 bytes; UTF-8 validity of every string of length <= 2 with a non-ASCII lead byte".to_string());
}

fn rule_of(prop: &str) -> &'static str {
    match prop {
        "C01" => "inputs: built-in + corpus + generated valid responses, 1-3 stacked mutations (token insert/replace/delete, byte flip, splice, string-form substitution incl. non-UTF-8/NUL literals, numeral substitution, truncation, duplication), nesting sweep in a 2 MiB child thread; non-trivial = distinct input (hash of bytes) whose verdict is not INC or that is longer than 2 bytes",
        "C02" => "pairs (B, X): every cut of every valid response, valid responses and mutants followed by continuations (another response, random bytes, CRLF); non-trivial = distinct (B, X) with non-empty X and verdict(B) in {ok, err}, or distinct (response, cut) pair",
        "C09" => "buffers: valid responses, token-mutated ones, random printable lines, alone and followed by further responses; non-trivial = distinct buffer that holds a lexically complete frame by the independent framer",
        "C13" => "every numeric-position template x boundary numeral x zero padding (exhaustive), plus random numeral substitutions; non-trivial = distinct instantiated template",
        _ => "see DESIGN.md",
    }
}

fn run_replay(model: &str, file: &str, prop: &str) -> i32 {
    let mut ctx = Ctx::new(model, prop);
    let text = std::fs::read_to_string(file).expect("read replay file");
    let mut bad = 0;
    for line in text.lines() {
        let mut it = line.split_whitespace();
        if it.next() != Some("parse") {
            continue;
        }
        let b = unhex(it.next().unwrap_or(""));
        let v = match prop {
            "C09" => {
                oracle_c09(&mut ctx, &b, "replay");
                verdict(&b)
            }
            _ => oracle_c01(&mut ctx, &b, "replay"),
        };
        println!("input  {}", show_bytes(&b));
        println!("impl   {}", clip(&v));
    }
    ctx.flush();
    for d in &ctx.log.disagreements {
        println!("DISAGREE op={} impl={} model={}", d.op, d.imp, d.model);
        bad += 1;
    }
    for f in &ctx.log.oracle_failures {
        println!("ORACLE-FAIL {}: {}", f.class, f.what);
        bad += 1;
    }
    if bad > 0 {
        1
    } else {
        0
    }
}

fn main() {
    std::panic::set_hook(Box::new(|_| {}));
    let args = Args::from_env();
    if let Some(n) = args.get("child-nest") {
        child_nest(n.parse().unwrap());
        return;
    }
    let prop = args.get_or("prop", "C01");
    let seed = args.num("seed", 1);
    let tier = args.get_or("tier", "quick");
    let thorough = tier == "thorough";
    let model = args.get_or("model", "/verif/lean/.lake/build/bin/imapmodel");
    let out = args.get_or("out", "/dev/stdout");
    let shards = args.num("shards", 12) as usize;
    let corpus_dir = args.get_or("corpus", &format!("/verif/corpus/{}", prop));
    if let Some(f) = args.get("replay") {
        std::process::exit(run_replay(&model, f, &prop));
    }

    // all byte strings are in scope here: do not hold the value generator to RFC length limits
    vh_proto::gen::RFC_LIMITS.store(false, std::sync::atomic::Ordering::Relaxed);
    let corpus = load_corpus(&corpus_dir);
    let gen = generated_seeds(seed, if thorough { 40 } else { 5 }, if thorough { 65536 } else { 2000 });
    let n_gen = gen.len();
    let focused = focused_seeds(seed, if thorough { 8 } else { 3 }, 2000);
    let n_focused = focused.len();
    let mut gen = gen;
    // only the short focused responses join the seed pool of the mutation passes (every mutant and every
    // prefix goes through the model driver; with long seeds a new constant turned a 3 s run into an hour);
    // the long ones are run whole in the directed pass below
    gen.extend(focused.iter().filter(|b| b.len() <= 1024).cloned());
    let seeds = seeds_for(&corpus, gen);
    init_buckets(&seeds);
    let total = Mutex::new(Log::default());

    // the corpus runs first (shard 0 does it), then the generated cases, sharded
    std::thread::scope(|s| {
        for shard in 0..shards {
            let total = &total;
            let seeds = &seeds;
            let focused = &focused;
            let corpus = &corpus;
            let prop = prop.clone();
            let model = model.clone();
            s.spawn(move || {
                let mut ctx = Ctx::new(&model, &prop);
                let mut rng = Rng::new(seed.wrapping_mul(1000003).wrapping_add(shard as u64));
                if shard == 0 {
                    for c in corpus {
                        match prop.as_str() {
                            "C09" => oracle_c09(&mut ctx, c, "corpus"),
                            "C02" => {
                                oracle_c02_pair(&mut ctx, c, b"* 1 EXISTS\r\n", "corpus");
                                let cuts: Vec<usize> = (0..c.len()).collect();
                                oracle_c02_prefixes(&mut ctx, c, &cuts, "corpus");
                            }
                            _ => {
                                oracle_c01(&mut ctx, c, "corpus");
                            }
                        }
                    }
                }
                // body structures of 1..40 nesting levels, every kind of nesting (around the nesting budget)
                for d in 1..=40usize {
                    if d % shards != shard {
                        continue;
                    }
                    for (input, _label) in vh_proto::parsecommon::nesting_boundary_inputs(d) {
                        match prop.as_str() {
                            "C02" => oracle_c02_pair(&mut ctx, &input, b"* 1 EXISTS\r\n", "nesting-boundary"),
                            "C09" => oracle_c09(&mut ctx, &input, "nesting-boundary"),
                            _ => { oracle_c01(&mut ctx, &input, "nesting-boundary"); }
                        }
                        ctx.log.count("nesting-boundary");
                    }
                }
                // directed passes for new source constants: the focused valid responses as they are
                for (i, input) in focused.iter().enumerate() {
                    if i % shards != shard {
                        continue;
                    }
                    match prop.as_str() {
                        "C02" => {
                            oracle_c02_pair(&mut ctx, input, b"* 1 EXISTS\r\n", "source-constant");
                            if input.len() <= 4096 {
                                // every cut of a short input; of a long one the cuts at both ends, around the
                                // multiples of the new constants and a stride (the model driver re-parses
                                // every prefix: all cuts of all long inputs took tens of minutes)
                                let n = input.len();
                                let cuts: Vec<usize> = if n <= 600 {
                                    (0..n).collect()
                                } else {
                                    let mut c: Vec<usize> = (0..64).chain(n - 64..n).collect();
                                    for (v, is_new) in vh_proto::srcdict::dict().ints.iter() {
                                        let v = *v as usize;
                                        if *is_new && v >= 2 && v < n {
                                            let mut m = v;
                                            let mut k = 0;
                                            while m < n && k < 8 {
                                                for d in 0..5 {
                                                    let x = m + d;
                                                    if x >= 2 && x - 2 < n {
                                                        c.push(x - 2);
                                                    }
                                                }
                                                m += v;
                                                k += 1;
                                            }
                                        }
                                    }
                                    let stride = std::cmp::max(1, n / 200);
                                    c.extend((0..n).step_by(stride));
                                    c.sort();
                                    c.dedup();
                                    c
                                };
                                oracle_c02_prefixes(&mut ctx, input, &cuts, "source-constant");
                            }
                        }
                        "C09" => oracle_c09(&mut ctx, input, "source-constant"),
                        _ => {
                            oracle_c01(&mut ctx, input, "source-constant");
                        }
                    }
                    ctx.log.count("source-constant");
                }
                let sh = shards as u64;
                match prop.as_str() {
                    "C01" => {
                        let n = if thorough { 2_000_000 } else { 200_000 };
                        run_c01(&mut ctx, &mut rng, seeds, n / sh, shard, shards);
                        if shard == 0 {
                            let levels: Vec<usize> = if thorough {
                                let mut l: Vec<usize> = (1..=40).collect();
                                l.extend([100, 200, 400, 1000, 5000, 20000]);
                                l
                            } else {
                                vec![1, 2, 8, 31, 32, 33, 34, 35, 100, 400, 1000, 20000]
                            };
                            run_nesting(&mut ctx, &levels);
                            run_tables(&mut ctx);
                        }
                    }
                    "C02" => {
                        let (nv, nm) = if thorough { (20_000, 400_000) } else { (1_600, 40_000) };
                        run_c02(&mut ctx, &mut rng, seeds, nv / sh, nm / sh, thorough, shard, shards);
                    }
                    "C09" => {
                        let n = if thorough { 2_000_000 } else { 300_000 };
                        run_c09(&mut ctx, &mut rng, seeds, n / sh, shard, shards);
                    }
                    "C13" => {
                        if shard == 0 {
                            run_c13(&mut ctx, &mut rng, thorough);
                        }
                    }
                    _ => {}
                }
                ctx.flush();
                // directed search around disagreements (bounded)
                let suspects = std::mem::take(&mut ctx.suspects);
                for b in suspects.iter().take(20) {
                    search_around(&mut ctx, &mut rng, b);
                }
                ctx.flush();
                ctx.suspects.clear();
                total.lock().unwrap().merge(ctx.log);
            });
        }
    });

    let mut log = total.into_inner().unwrap();
    log.count_n("seeds:built-in", SEEDS.len() as u64);
    log.count_n("seeds:corpus", corpus.len() as u64);
    log.count_n("seeds:generated", n_gen as u64);
    log.count_n("seeds:source-constant-focused", n_focused as u64);
    log.count_n("srcdict:ints", vh_proto::srcdict::dict().ints.len() as u64);
    log.count_n("srcdict:strings", vh_proto::srcdict::dict().strs.len() as u64);
    log.count_n("srcdict:new", vh_proto::srcdict::new_foci().len() as u64);
    // samples: a few evaluated inputs written out
    let mut srng = Rng::new(seed);
    for _ in 0..6 {
        let s = srng.pick(&seeds).clone();
        let o = srng.pick(&seeds).clone();
        let (m, k) = mutate(&mut srng, &s, &o);
        log.sample(format!("{}: {} -> {}", k, show_bytes(&m), clip(&verdict(&m))));
    }
    std::fs::write(&out, log.to_json(&prop, seed, &tier, rule_of(&prop))).expect("write out");
    println!(
        "prop={} evaluations={} compared={} distinct_nontrivial={} disagreements={} oracle_failures={}",
        prop,
        log.evaluations,
        log.compared,
        log.nontrivial.len(),
        log.n_disagreements,
        log.n_oracle_failures
    );
}
