//! Type-side correspondence + oracles: C15 (`into_owned` preserves the value) and C17
//! (`BodyStructParser` paths are IMAP part specifiers).

use imap_proto::parser::bodystructure::BodyStructParser;
use imap_proto::types::*;
use imap_proto::Response;
use std::borrow::Cow;
use std::sync::Mutex;
use vh_proto::gen::{gen_response_kind, GenCfg, KINDS};
use vh_proto::parsecommon::SEEDS;
use vh_proto::print::{print_response, Style};
use vh_proto::prng::{hex, Rng};
use vh_proto::run::*;
use vh_proto::ser;

struct Ctx {
    model: Model,
    log: Log,
    ops: Vec<String>,
    imps: Vec<String>,
}

impl Ctx {
    fn new(model: &str) -> Ctx {
        Ctx {
            model: Model::spawn(model).expect("spawn model"),
            log: Log::default(),
            ops: vec![],
            imps: vec![],
        }
    }
    fn queue(&mut self, op: String, imp: String) {
        self.log.evaluations += 1;
        self.ops.push(op);
        self.imps.push(imp);
        if self.ops.len() >= 2000 {
            self.flush();
        }
    }
    fn flush(&mut self) {
        if self.ops.is_empty() {
            return;
        }
        let replies = self.model.eval_batch(&self.ops);
        for i in 0..self.ops.len() {
            self.log.compared += 1;
            if replies[i] != self.imps[i] {
                self.log.disagree(Disagreement {
                    op: clip(&self.ops[i]),
                    imp: clip(&self.imps[i]),
                    model: clip(&replies[i]),
                    note: String::new(),
                });
            }
        }
        self.ops.clear();
        self.imps.clear();
    }
    fn fail(&mut self, class: &str, what: String, op: &str) {
        self.log.oracle_fail(OracleFailure {
            class: class.to_string(),
            what,
            ops: vec![op.to_string()],
            known: String::new(),
        });
    }
}

fn clip(s: &str) -> String {
    if s.len() > 1500 {
        format!("{}...", &s[..1500])
    } else {
        s.to_string()
    }
}

// ------------------------------------------------------------------------------------------------
// C17

#[derive(Clone, Debug)]
enum Shape {
    Leaf(u8),
    Multi(Vec<Shape>),
}

fn leaf(kind: u8, id: u32) -> BodyStructure<'static> {
    let common = |ty: &'static str, sub: &'static str| BodyContentCommon {
        ty: ContentType {
            ty: Cow::Borrowed(ty),
            subtype: Cow::Borrowed(sub),
            params: None,
        },
        disposition: None,
        language: None,
        location: None,
    };
    let other = BodyContentSinglePart {
        id: None,
        md5: None,
        description: None,
        transfer_encoding: ContentEncoding::SevenBit,
        octets: id,
    };
    match kind % 3 {
        0 => BodyStructure::Basic {
            common: common("APPLICATION", "OCTET-STREAM"),
            other,
            extension: None,
        },
        1 => BodyStructure::Text {
            common: common("TEXT", "PLAIN"),
            other,
            lines: 1,
            extension: None,
        },
        _ => BodyStructure::Message {
            common: common("MESSAGE", "RFC822"),
            other,
            envelope: Envelope {
                date: None,
                subject: None,
                from: None,
                sender: None,
                reply_to: None,
                to: None,
                cc: None,
                bcc: None,
                in_reply_to: None,
                message_id: None,
            },
            // the encapsulated body carries ids no selector uses; it is a single text part or - for every
            // other message leaf - a multipart of 1..3 text parts (a walker that descends into the
            // encapsulated multipart must still report the message part itself under its own specifier)
            body: Box::new({
                let inner = |_: u32| BodyStructure::Text {
                    common: common("TEXT", "PLAIN"),
                    other: BodyContentSinglePart {
                        id: None,
                        md5: None,
                        description: None,
                        transfer_encoding: ContentEncoding::SevenBit,
                        octets: u32::MAX,
                    },
                    lines: 1,
                    extension: None,
                };
                if id % 2 == 0 {
                    inner(0)
                } else {
                    BodyStructure::Multipart {
                        common: common("MULTIPART", "EMBEDDED"),
                        bodies: (0..(1 + id % 3)).map(inner).collect(),
                        extension: None,
                    }
                }
            }),
            lines: 1,
            extension: None,
        },
    }
}

/// build the real `BodyStructure`, numbering nodes in pre-order; returns (tree, tokens)
fn build(s: &Shape, next: &mut u32, toks: &mut Vec<String>, expect: &mut Vec<(u32, Vec<u32>)>, path: &mut Vec<u32>) -> BodyStructure<'static> {
    let id = *next;
    *next += 1;
    expect.push((id, path.clone()));
    match s {
        Shape::Leaf(k) => {
            toks.push(format!("L{}", id));
            leaf(*k, id)
        }
        Shape::Multi(cs) => {
            toks.push(format!("M{}:{}", id, cs.len()));
            let mut bodies = vec![];
            for (i, c) in cs.iter().enumerate() {
                path.push(i as u32 + 1);
                bodies.push(build(c, next, toks, expect, path));
                path.pop();
            }
            BodyStructure::Multipart {
                common: BodyContentCommon {
                    ty: ContentType {
                        ty: Cow::Borrowed("MULTIPART"),
                        subtype: Cow::Owned(id.to_string()),
                        params: None,
                    },
                    disposition: None,
                    language: None,
                    location: None,
                },
                bodies,
                extension: None,
            }
        }
    }
}

fn id_of(b: &BodyStructure) -> u32 {
    match b {
        BodyStructure::Basic { other, .. } | BodyStructure::Text { other, .. } | BodyStructure::Message { other, .. } => other.octets,
        BodyStructure::Multipart { common, .. } => common.ty.subtype.parse().unwrap_or(u32::MAX - 1),
    }
}

fn show_path(p: &[u32]) -> String {
    format!("[{}]", p.iter().map(|x| x.to_string()).collect::<Vec<_>>().join("."))
}

fn eval_tree(ctx: &mut Ctx, rng: &mut Rng, s: &Shape) {
    let mut next = 0u32;
    let mut toks = vec![];
    let mut expect = vec![];
    let tree = build(s, &mut next, &mut toks, &mut expect, &mut vec![]);
    let n = next;
    let op = format!("bsp {} {}", n, toks.join(" "));
    let parser = BodyStructParser::new(&tree);
    let mut parts = vec![];
    for id in 0..n {
        let got = parser.search(|b| id_of(b) == id);
        parts.push(match &got {
            Some(p) => format!("{}={}", id, show_path(p)),
            None => format!("{}=-", id),
        });
        // oracle: the path is the IMAP part specifier computed from the tree shape
        let want = &expect[id as usize].1;
        if got.as_deref() != Some(&want[..]) {
            ctx.fail(
                "wrong-specifier",
                format!(
                    "node {} of tree {} is the part {} but search returned {:?}",
                    id,
                    toks.join(" "),
                    show_path(want),
                    got.as_ref().map(|p| show_path(p))
                ),
                &op,
            );
        }
    }
    // a predicate nothing satisfies
    if parser.search(|b| id_of(b) == n + 7).is_some() {
        ctx.fail("phantom", format!("search for an absent node returned a path in {}", toks.join(" ")), &op);
    }
    // a predicate several nodes satisfy: the result must be the specifier of one of them
    if n >= 2 {
        let m = rng.range(2, 3) as u32;
        let r = rng.below(m as u64) as u32;
        let got = parser.search(|b| {
            let i = id_of(b);
            i < n && i % m == r
        });
        let cands: Vec<&Vec<u32>> = expect.iter().filter(|(i, _)| i % m == r).map(|(_, p)| p).collect();
        match got {
            Some(p) => {
                if !cands.iter().any(|c| **c == p) {
                    ctx.fail(
                        "wrong-specifier",
                        format!("multi-match search in {} returned {} which is not the specifier of a matching part", toks.join(" "), show_path(&p)),
                        &op,
                    );
                }
            }
            None => {
                if !cands.is_empty() {
                    ctx.fail("missed", format!("multi-match search in {} found nothing", toks.join(" ")), &op);
                }
            }
        }
    }
    // the same tree with every distinguishing mark removed (all leaves of a kind equal, all multiparts
    // equal: a message with the same attachment twice), searched with predicates that pick one node by
    // identity: a search that finds "the" part by comparing values reports a twin's specifier
    if n <= 400 {
        let mut next2 = 0u32;
        let (mut t2, mut e2) = (vec![], vec![]);
        let mut anon = build(s, &mut next2, &mut t2, &mut e2, &mut vec![]);
        anonymise(&mut anon);
        let mut nodes: Vec<(*const BodyStructure<'static>, Vec<u32>)> = vec![];
        collect_nodes(&anon, &mut vec![], &mut nodes);
        let parser2 = BodyStructParser::new(&anon);
        for (ptr, want) in &nodes {
            let target = *ptr;
            let got = parser2.search(|b| std::ptr::eq(b as *const BodyStructure<'_> as *const u8, target as *const u8));
            ctx.log.evaluations += 1;
            if got.as_deref() != Some(&want[..]) {
                ctx.fail(
                    "wrong-specifier",
                    format!(
                        "in the tree {} with indistinguishable parts, the part {} selected by identity is reported as {:?}",
                        toks.join(" "),
                        show_path(want),
                        got.as_ref().map(|p| show_path(p))
                    ),
                    &op,
                );
                break;
            }
        }
        ctx.log.count("c17:identity-selected-twins");
    }
    ctx.log.count(&format!("c17:nodes{}", std::cmp::min(n, 20)));
    ctx.log.nontrivial(&op);
    ctx.queue(op, parts.join(" "));
}

fn anonymise(b: &mut BodyStructure<'static>) {
    match b {
        BodyStructure::Basic { other, .. } | BodyStructure::Text { other, .. } | BodyStructure::Message { other, .. } => other.octets = 7,
        BodyStructure::Multipart { common, bodies, .. } => {
            common.ty.subtype = Cow::Borrowed("MIXED");
            for c in bodies.iter_mut() {
                anonymise(c);
            }
        }
    }
}

fn collect_nodes(b: &BodyStructure<'static>, path: &mut Vec<u32>, out: &mut Vec<(*const BodyStructure<'static>, Vec<u32>)>) {
    out.push((b as *const _, path.clone()));
    if let BodyStructure::Multipart { bodies, .. } = b {
        for (i, c) in bodies.iter().enumerate() {
            path.push(i as u32 + 1);
            collect_nodes(c, path, out);
            path.pop();
        }
    }
}

fn all_shapes(depth: u32, max_children: usize) -> Vec<Shape> {
    if depth == 0 {
        return vec![Shape::Leaf(0)];
    }
    let sub = all_shapes(depth - 1, max_children);
    let mut out = vec![Shape::Leaf(0)];
    // all tuples of 1..max_children sub-shapes
    let mut tuples: Vec<Vec<Shape>> = vec![vec![]];
    for _ in 0..max_children {
        let mut next = vec![];
        for t in &tuples {
            for s in &sub {
                let mut t2 = t.clone();
                t2.push(s.clone());
                next.push(t2);
            }
        }
        for t in &next {
            out.push(Shape::Multi(t.clone()));
        }
        tuples = next;
        if out.len() > 400_000 {
            break;
        }
    }
    out
}

fn random_shape(rng: &mut Rng, depth: u32) -> Shape {
    if depth == 0 || rng.chance(1, 3) {
        Shape::Leaf(rng.below(3) as u8)
    } else {
        let k = rng.range(1, 6) as usize;
        Shape::Multi((0..k).map(|_| random_shape(rng, depth - 1)).collect())
    }
}

fn run_c17(ctx: &mut Ctx, rng: &mut Rng, thorough: bool, shard: usize, shards: usize) {
    let shapes = if thorough { all_shapes(2, 6) } else { all_shapes(2, 4) };
    for (i, s) in shapes.iter().enumerate() {
        if i % shards == shard {
            eval_tree(ctx, rng, s);
        }
    }
    // deep and wide trees: nesting far beyond what a message of a few parts has (a path of 9, 17, 33,
    // 65, 100 components), multiparts of 9..1000 children (two- and three-digit part numbers, numbers
    // beyond 255), and both at once
    let mut directed: Vec<Shape> = vec![];
    for &d in &[5usize, 6, 7, 8, 9, 10, 11, 12, 15, 16, 17, 31, 32, 33, 64, 65, 100] {
        for variant in 0..3 {
            // a chain going down through the last child; `variant` siblings in front of it at every level
            let mut s = Shape::Leaf((d % 3) as u8);
            for lvl in 0..d {
                let mut kids: Vec<Shape> = (0..variant).map(|k| Shape::Leaf(((k + lvl) % 3) as u8)).collect();
                kids.push(s);
                s = Shape::Multi(kids);
            }
            directed.push(s);
        }
    }
    for &w in &[9usize, 10, 11, 16, 17, 99, 100, 101, 255, 256, 257, 300, 1000] {
        directed.push(Shape::Multi((0..w).map(|k| Shape::Leaf((k % 3) as u8)).collect()));
        // the last child is itself a multipart, and so is the first
        let mut kids: Vec<Shape> = (0..w).map(|k| Shape::Leaf((k % 3) as u8)).collect();
        kids[w - 1] = Shape::Multi(vec![Shape::Leaf(0), Shape::Multi(vec![Shape::Leaf(1), Shape::Leaf(2)])]);
        kids[0] = Shape::Multi(vec![Shape::Leaf(2)]);
        directed.push(Shape::Multi(kids));
        // wide below the top
        directed.push(Shape::Multi(vec![Shape::Leaf(0), Shape::Multi((0..w).map(|k| Shape::Leaf((k % 3) as u8)).collect())]));
    }
    for (i, s) in directed.iter().enumerate() {
        if i % shards == shard {
            eval_tree(ctx, rng, s);
            ctx.log.count("c17:deep-or-wide");
        }
    }
    let n = vh_proto::srcdict::scaled(if thorough { 100_000 } else { 6_000 } / shards);
    for _ in 0..n {
        let mut s = random_shape(rng, 4);
        if let Shape::Leaf(_) = s {
            s = Shape::Multi(vec![random_shape(rng, 3), random_shape(rng, 3), random_shape(rng, 3)]);
        }
        eval_tree(ctx, rng, &s);
    }
}

// ------------------------------------------------------------------------------------------------
// C15

fn gen_pair(seed: u64, kind: usize, cfg: &GenCfg) -> (Response<'static>, Response<'static>) {
    let mut r1 = Rng::new(seed);
    let mut r2 = Rng::new(seed);
    (gen_response_kind(&mut r1, cfg, kind), gen_response_kind(&mut r2, cfg, kind))
}

/// C15 (a): generate the same value twice from one seed, convert one copy, compare field by field
/// (serialisation and PartialEq).  Returns false when the generator itself gave up on this seed.
fn eval_gen(ctx: &mut Ctx, s: u64, kind: usize, cfg: &GenCfg, free: bool) -> bool {
    let r = std::panic::catch_unwind(|| {
        let (v1, v2) = if free { vh_proto::gen::with_free_values(|| gen_pair(s, kind, cfg)) } else { gen_pair(s, kind, cfg) };
        let want = ser::response(&v2);
        let owned = v1.into_owned();
        let got = ser::response(&owned);
        (want, got, owned == v2)
    });
    if free {
        ctx.log.count("c15:free-value-space");
    }
    let (want, got, eq) = match r {
        Ok(x) => x,
        Err(_) => return false,
    };
    ctx.log.evaluations += 1;
    ctx.log.count(&format!("c15:kind:{}", KINDS[kind]));
    ctx.log.nontrivial(&want);
    if want != got || !eq {
        ctx.fail(
            "owned-differs",
            format!("into_owned changed a generated {} value: before {} after {}", KINDS[kind], clip(&want), clip(&got)),
            &format!("gen {} {} {} {} {} {} {}", s, kind, cfg.max_depth, cfg.adversarial as u8, cfg.max_str, cfg.max_lit, free as u8),
        );
    }
    true
}

fn run_c15(ctx: &mut Ctx, rng: &mut Rng, thorough: bool, shard: usize, shards: usize) {
    let n = vh_proto::srcdict::scaled(if thorough { 500_000 } else { 24_000 } / shards);
    for i in 0..n {
        let kind = (i * shards + shard) % KINDS.len();
        let cfg = GenCfg {
            max_depth: if i % 5 == 4 { 4 } else { 2 },
            adversarial: i % 2 == 1,
            max_str: 12,
            max_lit: if i % 16 == 15 { 4000 } else { 40 },
        };
        let s = rng.next_u64();
        // (a) generated value: into_owned(v) == v, field by field
        // every third value from the whole value space of the types (empty strings and lists where the
        // wire form has none): this half never prints the value
        let free = i % 3 == 2;
        if !eval_gen(ctx, s, kind, &cfg, free) {
            continue;
        }
        // (b) parsed value: print, parse from a heap buffer, into_owned, clobber + free the buffer
        let wire = std::panic::catch_unwind(|| {
            let (v1, _) = gen_pair(s, kind, &cfg);
            let mut r3 = Rng::new(s ^ 0x77);
            let st = Style {
                random_case: r3.bool(),
                string_forms: r3.below(3) as u8,
                zero_pad: 0,
                deviations: false,
                lsub: false,
            };
            print_response(&v1, &mut r3, &st)
        });
        let wire = match wire {
            Ok(w) => w,
            Err(_) => continue,
        };
        eval_owned_bytes(ctx, &wire);
        // (c) the three public building blocks of a body structure that `Response::into_owned` does
        // not reach: BodyFields, BodyExt1Part, BodyExtMPart (cut out of a generated body structure,
        // converted, and compared through a body structure rebuilt from them)
        if i % 3 == 0 {
            let r = std::panic::catch_unwind(|| {
                // the types are not Clone: generate the same body structure once per block
                let split = |seed: u64| {
                    let mut r = Rng::new(seed);
                    let b = vh_proto::gen::gen_body_structure(&mut r, &cfg, 0);
                    match b {
                        BodyStructure::Basic { common, other, extension } => (common, other, extension),
                        BodyStructure::Text { common, other, extension, .. } => (common, other, extension),
                        BodyStructure::Message { common, other, extension, .. } => (common, other, extension),
                        BodyStructure::Multipart { common, extension, .. } => (
                            common,
                            BodyContentSinglePart { id: None, md5: None, description: None, transfer_encoding: ContentEncoding::SevenBit, octets: 0 },
                            extension,
                        ),
                    }
                };
                let parts = |seed: u64| {
                    let (c1, o1, _) = split(seed);
                    let fields = BodyFields { param: c1.ty.params, id: o1.id, description: o1.description, transfer_encoding: o1.transfer_encoding, octets: o1.octets };
                    let (c2, o2, x2) = split(seed);
                    let e1 = BodyExt1Part { md5: o2.md5, disposition: c2.disposition, language: c2.language, location: c2.location, extension: x2 };
                    let (c3, _, x3) = split(seed);
                    let em = BodyExtMPart { param: c3.ty.params, disposition: c3.disposition, language: c3.language, location: c3.location, extension: x3 };
                    (fields, e1, em)
                };
                let rebuild = |f: BodyFields<'static>, e1: BodyExt1Part<'static>, em: BodyExtMPart<'static>| -> String {
                    let a = BodyStructure::Basic {
                        common: BodyContentCommon {
                            ty: ContentType { ty: "A".into(), subtype: "B".into(), params: f.param },
                            disposition: e1.disposition,
                            language: e1.language,
                            location: e1.location,
                        },
                        other: BodyContentSinglePart { id: f.id, md5: e1.md5, description: f.description, transfer_encoding: f.transfer_encoding, octets: f.octets },
                        extension: e1.extension,
                    };
                    let b = BodyStructure::Multipart {
                        common: BodyContentCommon {
                            ty: ContentType { ty: "M".into(), subtype: "X".into(), params: em.param },
                            disposition: em.disposition,
                            language: em.language,
                            location: em.location,
                        },
                        bodies: vec![],
                        extension: em.extension,
                    };
                    format!("{} {}", ser::body_structure(&a), ser::body_structure(&b))
                };
                let (f1, a1, m1) = parts(s ^ 0x5151);
                let (f2, a2, m2) = parts(s ^ 0x5151);
                let got = rebuild(f1.into_owned(), a1.into_owned(), m1.into_owned());
                let want = rebuild(f2, a2, m2);
                (want, got)
            });
            if let Ok((want, got)) = r {
                ctx.log.evaluations += 1;
                ctx.log.count("c15:body-building-blocks");
                ctx.log.nontrivial(&want);
                if want != got {
                    ctx.fail(
                        "owned-differs",
                        format!("into_owned of BodyFields / BodyExt1Part / BodyExtMPart changed a value: before {} after {}", clip(&want), clip(&got)),
                        &format!("gen-parts {}", s ^ 0x5151),
                    );
                }
            }
        }
    }
    if shard == 0 {
        for s in SEEDS {
            eval_owned_bytes(ctx, s);
        }
    }
}

fn eval_owned_bytes(ctx: &mut Ctx, wire: &[u8]) {
    let op = format!("owned {}", hex(wire));
    let mut buf: Vec<u8> = wire.to_vec();
    let parsed = match Response::from_bytes(&buf) {
        Ok((rest, v)) => Some((buf.len() - rest.len(), ser::response(&v), v.into_owned())),
        Err(_) => None,
    };
    let imp = match parsed {
        None => match Response::from_bytes(wire) {
            Err(nom::Err::Incomplete(_)) => "INC".to_string(),
            _ => "ERR".to_string(),
        },
        Some((consumed, before, owned)) => {
            // overwrite and free the buffer the original borrowed from, churn the allocator
            for b in buf.iter_mut() {
                *b = 0xAA;
            }
            drop(buf);
            let churn: Vec<Vec<u8>> = (0..8).map(|i| vec![0x55u8; wire.len() + i]).collect();
            let after = ser::response(&owned);
            drop(churn);
            if after != before {
                ctx.fail(
                    "owned-differs",
                    format!("into_owned of a parsed response differs after the source buffer was freed: {} vs {}", clip(&before), clip(&after)),
                    &op,
                );
            }
            // and equal to an independent second parse
            if let Ok((_, again)) = Response::from_bytes(wire) {
                if again != owned {
                    ctx.fail("owned-differs", format!("owned copy != second parse of {}", show_bytes(wire)), &op);
                }
            }
            format!("OK {} {}", consumed, after)
        }
    };
    ctx.queue(op, imp);
}

fn rule_of(prop: &str) -> &'static str {
    match prop {
        "C15" => "type-directed generated values of every response kind (same generator as C03, nested body structures, adversarial strings) converted with into_owned and compared field by field through the canonical serialiser and PartialEq; the same values printed, parsed from a heap buffer, converted, and compared after the buffer was overwritten and freed; non-trivial = distinct serialised value",
        "C17" => "all multipart skeletons of depth <= 2 with up to 4 (quick) / 6 (thorough) children per multipart (exhaustive), random trees to depth 4 with 1..6 children and every leaf kind (basic, text, message); per tree: every node as selector, an absent node, a multi-match predicate; non-trivial = distinct tree",
        _ => "",
    }
}

fn main() {
    std::panic::set_hook(Box::new(|_| {}));
    let args = Args::from_env();
    let prop = args.get_or("prop", "C17");
    let seed = args.num("seed", 1);
    let tier = args.get_or("tier", "quick");
    let thorough = tier == "thorough";
    let model = args.get_or("model", "/verif/lean/.lake/build/bin/imapmodel");
    let out = args.get_or("out", "/dev/stdout");
    let shards = args.num("shards", 8) as usize;
    if let Some(f) = args.get("replay") {
        let mut ctx = Ctx::new(&model);
        let text = std::fs::read_to_string(f).expect("replay file");
        let mut rng = Rng::new(1);
        for line in text.lines() {
            if line.starts_with('#') || line.trim().is_empty() {
                continue;
            }
            let toks: Vec<&str> = line.split_whitespace().collect();
            match toks[0] {
                "owned" => eval_owned_bytes(&mut ctx, &vh_proto::prng::unhex(toks[1])),
                "gen" if toks.len() >= 8 => {
                    let p = |k: usize| -> u64 { toks[k].parse().unwrap_or(0) };
                    let cfg = GenCfg { max_depth: p(3) as u32, adversarial: p(4) == 1, max_str: p(5) as usize, max_lit: p(6) as usize };
                    eval_gen(&mut ctx, p(1), p(2) as usize, &cfg, p(7) == 1);
                }
                "bsp" => {
                    // rebuild the shape from the tokens
                    fn parse(toks: &[&str], pos: &mut usize) -> Shape {
                        let t = toks[*pos];
                        *pos += 1;
                        if t.starts_with('L') {
                            Shape::Leaf(0)
                        } else {
                            let k: usize = t.split(':').nth(1).unwrap().parse().unwrap();
                            Shape::Multi((0..k).map(|_| parse(toks, pos)).collect())
                        }
                    }
                    let mut pos = 2;
                    let s = parse(&toks, &mut pos);
                    eval_tree(&mut ctx, &mut rng, &s);
                }
                _ => {}
            }
            println!("{}", clip(line));
        }
        ctx.flush();
        let mut bad = 0;
        for d in &ctx.log.disagreements {
            println!("DISAGREE op={} impl={} model={}", d.op, d.imp, d.model);
            bad += 1;
        }
        for f in &ctx.log.oracle_failures {
            println!("ORACLE-FAIL {}: {}", f.class, f.what);
            bad += 1;
        }
        std::process::exit(if bad > 0 { 1 } else { 0 });
    }
    let total = Mutex::new(Log::default());
    std::thread::scope(|s| {
        for shard in 0..shards {
            let total = &total;
            let prop = prop.clone();
            let model = model.clone();
            s.spawn(move || {
                let mut ctx = Ctx::new(&model);
                let mut rng = Rng::new(seed.wrapping_mul(1000003).wrapping_add(shard as u64));
                match prop.as_str() {
                    "C15" => run_c15(&mut ctx, &mut rng, thorough, shard, shards),
                    "C17" => run_c17(&mut ctx, &mut rng, thorough, shard, shards),
                    _ => {}
                }
                // directed passes: one per constant of /repo's sources that the baseline does not have
                for (fo, _name) in vh_proto::srcdict::foci() {
                    vh_proto::srcdict::with_focus(fo, || match prop.as_str() {
                        "C15" => run_c15(&mut ctx, &mut rng, thorough, shard, shards),
                        "C17" => run_c17(&mut ctx, &mut rng, thorough, shard, shards),
                        _ => {}
                    });
                    ctx.log.count("source-constant-pass");
                }
                ctx.flush();
                total.lock().unwrap().merge(ctx.log);
            });
        }
    });
    let mut log = total.into_inner().unwrap();
    match prop.as_str() {
        "C17" => {
            log.exhaustive.push(format!("all multipart skeletons of depth <= 2 with <= {} children", if thorough { 6 } else { 4 }));
            log.sample("bsp 5 M0:4 L1 L2 L3 L4 -> 0=[] 1=[1] 2=[2] 3=[3] 4=[4]".to_string());
        }
        _ => {
            log.sample("owned <hex of '* 1 FETCH (ENVELOPE (...))'> -> OK n (Fetch 1 [(Envelope ...)])".to_string());
        }
    }
    std::fs::write(&out, log.to_json(&prop, seed, &tier, rule_of(&prop))).expect("write out");
    println!(
        "prop={} evaluations={} compared={} distinct_nontrivial={} disagreements={} oracle_failures={}",
        prop, log.evaluations, log.compared, log.nontrivial.len(), log.n_disagreements, log.n_oracle_failures
    );
}
