//! `vh_rt_probe <seed> <count> [quiet] [big]` — generate / print / parse round-trip probe.
//! `vh_rt_probe show <seed> <count>` — print the wire form of generated cases.
//! `vh_rt_probe fixed` — a few hand-written RFC-conformant lines that the printer never emits.
//!
//! Failure classes: K2 = METADATA mailbox not sent as a quoted string (known parser defect),
//! K3 = keyword-prefix atom (known parser defect), everything else is printed as OTHER/NEW.

use std::collections::BTreeMap;
use std::panic::{catch_unwind, AssertUnwindSafe};

use imap_proto::types::*;
use vh_proto::gen::{gen_response_kind, GenCfg, KINDS};
use vh_proto::print::{print_response, Style};
use vh_proto::prng::Rng;

fn starts_with_ci(a: &str, prefix: &str) -> bool {
    a.len() >= prefix.len() && a.as_bytes()[..prefix.len()].eq_ignore_ascii_case(prefix.as_bytes())
}

fn caps_have_prefix_atom(caps: &[Capability<'_>]) -> bool {
    caps.iter().any(|c| matches!(c, Capability::Atom(a) if starts_with_ci(a, "IMAP4rev1")))
}

fn code_has_prefix_atom(code: &Option<ResponseCode<'_>>) -> bool {
    matches!(code, Some(ResponseCode::Capabilities(caps)) if caps_have_prefix_atom(caps))
}

/// Known defect (3): the value contains an atom with a keyword as proper prefix.
fn is_k3(r: &Response<'_>) -> bool {
    const ATTRS: &[&str] = &[
        "\\Noinferiors", "\\Noselect", "\\Marked", "\\Unmarked", "\\All", "\\Archive", "\\Drafts", "\\Flagged", "\\Junk",
        "\\Sent", "\\Trash",
    ];
    match r {
        Response::Capabilities(caps) => caps_have_prefix_atom(caps),
        Response::Continue { code, .. } | Response::Done { code, .. } | Response::Data { code, .. } => code_has_prefix_atom(code),
        Response::Quota(q) => q.resources.iter().any(|res| {
            matches!(&res.name, QuotaResourceName::Atom(a) if starts_with_ci(a, "STORAGE") || starts_with_ci(a, "MESSAGE"))
        }),
        Response::MailboxData(MailboxDatum::List { name_attributes, .. }) => name_attributes
            .iter()
            .any(|a| matches!(a, NameAttribute::Extension(s) if ATTRS.iter().any(|k| starts_with_ci(s, k)))),
        _ => false,
    }
}

fn metadata_mailbox<'a>(r: &'a Response<'_>) -> Option<&'a str> {
    match r {
        Response::MailboxData(MailboxDatum::MetadataSolicited { mailbox, .. })
        | Response::MailboxData(MailboxDatum::MetadataUnsolicited { mailbox, .. }) => Some(mailbox),
        _ => None,
    }
}

fn classify(value: &Response<'_>, wire: &[u8]) -> &'static str {
    if let Some(mbox) = metadata_mailbox(value) {
        // "* METADATA " is 11 bytes
        if wire.get(11) != Some(&b'"') {
            return "K2";
        }
        if mbox == "INBOX" && !wire[11..].starts_with(b"\"INBOX\"") {
            return "NEW-metadata-inbox-case";
        }
    }
    if is_k3(value) {
        return "K3";
    }
    "OTHER"
}

fn fixed() {
    let lines: &[(&str, &[u8])] = &[
        ("non-extensible BODY (RFC 3501 msg-att-static: \"BODY\" SP body)", b"* 1 FETCH (BODY (\"TEXT\" \"PLAIN\" NIL NIL NIL \"7BIT\" 5 1))\r\n"),
        ("the same as BODYSTRUCTURE", b"* 1 FETCH (BODYSTRUCTURE (\"TEXT\" \"PLAIN\" NIL NIL NIL \"7BIT\" 5 1))\r\n"),
        ("LIST delimiter backslash, escaped as the grammar requires", b"* LIST () \"\\\\\" foo\r\n"),
        ("quoted string with escaped quote", b"* LIST () \"/\" \"a\\\"b\"\r\n"),
        ("two body extensions (*(SP body-extension))", b"* 1 FETCH (BODYSTRUCTURE (\"TEXT\" \"PLAIN\" NIL NIL NIL \"7BIT\" 5 1 NIL NIL NIL NIL 1 2))\r\n"),
        ("METADATA mailbox INBOX in lower case, quoted", b"* METADATA \"inbox\" /shared/comment\r\n"),
        ("QUOTAROOT inbox lower case", b"* QUOTAROOT inbox \"\"\r\n"),
        ("ENABLED", b"* ENABLED CONDSTORE\r\n"),
        ("text media type as literal", b"* 1 FETCH (BODYSTRUCTURE ({4}\r\nTEXT \"PLAIN\" NIL NIL NIL \"7BIT\" 5 1))\r\n"),
    ];
    for (what, l) in lines {
        let res = catch_unwind(|| match Response::from_bytes(l) {
            Ok((rest, v)) => format!("Ok rest={:?} {:?}", String::from_utf8_lossy(rest), v),
            Err(e) => format!("Err {e:?}"),
        });
        println!("{what}\n  wire   {:?}\n  result {}", String::from_utf8_lossy(l), res.unwrap_or_else(|_| "PANIC".to_string()));
    }
}

fn main() {
    let args: Vec<String> = std::env::args().collect();
    if args.len() == 2 && args[1] == "fixed" {
        fixed();
        return;
    }
    if args.len() == 4 && args[1] == "show" {
        // vh_rt_probe show <seed> <count>: print the wire form of generated cases
        let mut rng = Rng::new(args[2].parse().expect("seed"));
        let count: usize = args[3].parse().expect("count");
        for i in 0..count {
            let kind = i % KINDS.len();
            let cfg = GenCfg { max_depth: 2, adversarial: i % 2 == 1, max_str: 8, max_lit: 40 };
            let value = gen_response_kind(&mut rng, &cfg, kind);
            let st = Style {
                random_case: rng.bool(),
                string_forms: rng.below(3) as u8,
                zero_pad: rng.below(3) as u32,
                deviations: rng.bool(),
                lsub: rng.bool(),
            };
            let wire = print_response(&value, &mut rng, &st);
            println!("{:28} {:?}", KINDS[kind], String::from_utf8_lossy(&wire));
        }
        return;
    }
    if args.len() < 3 {
        eprintln!("usage: vh_rt_probe <seed> <count> [quiet] [big] | vh_rt_probe show <seed> <count> | vh_rt_probe fixed");
        std::process::exit(2);
    }
    let seed: u64 = args[1].parse().expect("seed");
    let count: u64 = args[2].parse().expect("count");
    let quiet = args[3..].iter().any(|s| s == "quiet");
    // "big": thorough-mode literal sizes on every 10th case
    let big = args[3..].iter().any(|s| s == "big");
    // keep the default hook from spamming; panics are reported as failures below
    std::panic::set_hook(Box::new(|_| {}));

    let mut rng = Rng::new(seed);
    // per kind: pass count and failures per class
    let mut pass: Vec<u64> = vec![0; KINDS.len()];
    let mut fail: Vec<BTreeMap<&'static str, u64>> = vec![BTreeMap::new(); KINDS.len()];

    for i in 0..count {
        let kind = (i as usize) % KINDS.len();
        let mut case_rng = rng.fork();
        let cfg = GenCfg {
            max_depth: 3,
            adversarial: i % 2 == 1,
            max_str: 12,
            max_lit: if big && i % 10 == 0 {
                65536
            } else if i % 97 == 0 {
                5000
            } else {
                200
            },
        };
        let outcome = catch_unwind(AssertUnwindSafe(|| {
            let value = gen_response_kind(&mut case_rng, &cfg, kind);
            let st = Style {
                random_case: case_rng.bool(),
                string_forms: case_rng.below(3) as u8,
                zero_pad: case_rng.below(4) as u32,
                deviations: case_rng.bool(),
                lsub: case_rng.bool(),
            };
            let wire = print_response(&value, &mut case_rng, &st);
            let parsed = catch_unwind(AssertUnwindSafe(|| match Response::from_bytes(&wire) {
                Ok((rest, parsed)) => {
                    if rest.is_empty() && parsed == value {
                        Ok(())
                    } else if !rest.is_empty() {
                        Err(format!("rest={:?} parsed {:?}", String::from_utf8_lossy(rest), parsed))
                    } else {
                        Err(format!("parsed {:?}", parsed))
                    }
                }
                Err(e) => Err(format!("error {:?}", e)),
            }));
            let verdict = match parsed {
                Ok(v) => v,
                Err(_) => Err("PARSER PANIC".to_string()),
            };
            match verdict {
                Ok(()) => None,
                Err(msg) => Some((classify(&value, &wire), wire, format!("{:?}", value), msg)),
            }
        }));
        match outcome {
            Ok(None) => pass[kind] += 1,
            Ok(Some((class, wire, expected, msg))) => {
                *fail[kind].entry(class).or_insert(0) += 1;
                if !(quiet && (class == "K2" || class == "K3")) {
                    println!(
                        "FAIL [{}] case {} kind {}\n  wire     {:?}\n  expected {}\n  got      {}",
                        class,
                        i,
                        KINDS[kind],
                        String::from_utf8_lossy(&wire),
                        expected,
                        msg
                    );
                }
            }
            Err(_) => {
                *fail[kind].entry("HARNESS-PANIC").or_insert(0) += 1;
                println!("FAIL [HARNESS-PANIC] case {} kind {} (generator or printer panicked)", i, KINDS[kind]);
            }
        }
    }

    println!("---- summary seed={seed} count={count}");
    let mut totals: BTreeMap<&'static str, u64> = BTreeMap::new();
    let mut total_pass = 0;
    for (k, name) in KINDS.iter().enumerate() {
        let fails: Vec<String> = fail[k].iter().map(|(c, n)| format!("{c}={n}")).collect();
        for (c, n) in &fail[k] {
            *totals.entry(c).or_insert(0) += n;
        }
        total_pass += pass[k];
        println!("{:32} pass={:6} fail: {}", name, pass[k], if fails.is_empty() { "-".to_string() } else { fails.join(" ") });
    }
    println!("total pass={} fail by class: {:?}", total_pass, totals);
}
