//! Value-level correspondence + oracles for the round-trip properties:
//!   C03 parse fidelity        parse(print(v, enc) ++ rest) = (v, |print|)
//!   C08 literal opacity       the same with adversarial literal contents, followed by further responses
//!   C12 equivalent spellings  two encodings of one value parse to equal values
//!   C16 builder ↔ parser      FETCH builder items -> reference reply (RFC 3501 7.4.2) -> parse: one value per item
//! Values come from the type-directed generator (gen.rs), encodings from the independent RFC printer
//! (print.rs); every printed buffer is also sent to the Lean model (`parse` op).

use imap_proto::builders::command::{Command, CommandBuilder};
use imap_proto::types::*;
use imap_proto::Response;
use std::sync::Mutex;
use vh_proto::gen::{gen_attribute, gen_response_kind, GenCfg, ATTR_KINDS, KINDS};
use vh_proto::parsecommon::{consumed_of, verdict, SEEDS};
use vh_proto::print::{print_response, Style};
use vh_proto::prng::{hex, unhex, Rng};
use vh_proto::run::*;
use vh_proto::ser;

struct Ctx {
    model: Model,
    log: Log,
    ops: Vec<String>,
    imps: Vec<String>,
    notes: Vec<String>,
}

impl Ctx {
    fn new(model: &str) -> Ctx {
        Ctx {
            model: Model::spawn(model).expect("spawn model"),
            log: Log::default(),
            ops: vec![],
            imps: vec![],
            notes: vec![],
        }
    }
    fn eval(&mut self, b: &[u8], note: &str) -> String {
        let v = verdict(b);
        self.log.evaluations += 1;
        self.ops.push(format!("parse {}", hex(b)));
        self.imps.push(v.clone());
        self.notes.push(note.to_string());
        if self.ops.len() >= 2000 {
            self.flush();
        }
        v
    }
    fn flush(&mut self) {
        if self.ops.is_empty() {
            return;
        }
        let replies = self.model.eval_batch(&self.ops);
        for i in 0..self.ops.len() {
            self.log.compared += 1;
            if replies[i] != self.imps[i] {
                self.log.disagree(Disagreement {
                    op: clip(&self.ops[i], 60000),
                    imp: clip(&self.imps[i], 800),
                    model: clip(&replies[i], 800),
                    note: self.notes[i].clone(),
                });
                // the nesting-boundary family: a body structure within the nesting budget is an
                // encoding of a value (RT.EncBody), so what the model reads is the value the
                // implementation has to deliver
                if self.notes[i] == "nesting-boundary" && replies[i].starts_with("OK") {
                    let input = self.ops[i].trim_start_matches("parse ").to_string();
                    let what = format!(
                        "a FETCH reply whose body structure nests within the budget is read by the model ({}) but the implementation answers {}",
                        clip(&replies[i], 120),
                        clip(&self.imps[i], 120)
                    );
                    let op = format!("expect {} {}", input, hex(replies[i].as_bytes()));
                    self.log.oracle_fail(OracleFailure { class: "reply-unreadable".to_string(), what, ops: vec![op], known: String::new() });
                }
            }
        }
        self.ops.clear();
        self.imps.clear();
        self.notes.clear();
    }
    /// `ops` are replayable lines: `expect <input> <want>`, `follow <input> <consumed>`,
    /// `same <a> <b>` (all fields hex)
    fn fail(&mut self, class: &str, what: String, ops: Vec<String>) {
        self.log.oracle_fail(OracleFailure {
            class: class.to_string(),
            what,
            ops,
            known: String::new(),
        });
    }
}

fn clip(s: &str, n: usize) -> String {
    if s.len() > n {
        let mut k = n;
        while !s.is_char_boundary(k) {
            k -= 1;
        }
        format!("{}...", &s[..k])
    } else {
        s.to_string()
    }
}

fn cfg_for(i: usize, adversarial: bool, thorough: bool) -> GenCfg {
    GenCfg {
        max_depth: if i % 41 == 40 { 8 } else if i % 7 == 6 { if thorough { 6 } else { 4 } } else { 2 },
        adversarial,
        max_str: 12,
        max_lit: if i % 16 == 15 { if thorough { 65536 } else { 3000 } } else { 48 },
    }
}

fn random_style(rng: &mut Rng) -> Style {
    Style {
        random_case: rng.bool(),
        string_forms: rng.below(3) as u8,
        zero_pad: *rng.pick(&[0u32, 0, 1, 5, 30]),
        deviations: rng.bool(),
        lsub: rng.chance(1, 10),
    }
}

/// generate (value twice, from the same seed) and print it; `None` if the generator / printer panicked
fn gen_and_print(s: u64, kind: usize, cfg: &GenCfg, style_seed: u64) -> Option<(Response<'static>, Vec<u8>, String)> {
    std::panic::catch_unwind(|| {
        let mut r1 = Rng::new(s);
        let v = gen_response_kind(&mut r1, cfg, kind);
        let mut r2 = Rng::new(style_seed);
        let st = random_style(&mut r2);
        let desc = format!(
            "case={} forms={} pad={} dev={} lsub={}",
            st.random_case, st.string_forms, st.zero_pad, st.deviations, st.lsub
        );
        let wire = print_response(&v, &mut r2, &st);
        (v, wire, desc)
    })
    .ok()
}

/// C03 / C08 oracle: the printed value followed by `rest` parses to exactly the value, consuming
/// exactly the encoding
fn check_round_trip(ctx: &mut Ctx, v: &Response<'static>, wire: &[u8], rest: &[u8], kind: &str, desc: &str, class: &str) {
    let mut buf = wire.to_vec();
    buf.extend_from_slice(rest);
    let out = ctx.eval(&buf, kind);
    let want = format!("OK {} {}", wire.len(), ser::response(v));
    if out != want {
        // structural equality on the crate's own types as well
        let same_value = match Response::from_bytes(&buf) {
            Ok((r, got)) => got == *v && buf.len() - r.len() == wire.len(),
            Err(_) => false,
        };
        if !same_value {
            ctx.fail(
                class,
                format!(
                    "{} value printed as {} [{}] parses to {} instead of {}",
                    kind,
                    show_bytes(wire),
                    desc,
                    clip(&out, 300),
                    clip(&want, 300)
                ),
                vec![format!("expect {} {}", hex(&buf), hex(want.as_bytes()))],
            );
        }
    }
}

/// wall-clock budget of the directed passes (one re-run of the whole generator per new source constant, with
/// that constant as counts and lengths: the values are large and every one goes through the model driver)
thread_local! {
    static DEADLINE_MS: std::cell::Cell<u64> = const { std::cell::Cell::new(0) };
}
fn now_ms() -> u64 {
    std::time::SystemTime::now().duration_since(std::time::UNIX_EPOCH).map(|d| d.as_millis() as u64).unwrap_or(0)
}
/// in a directed pass, values whose wire form is very long are skipped (one such value can keep the model
/// driver busy for minutes; the ordinary run has its own long-input classes)
fn too_large_for_directed(wire: &[u8]) -> bool {
    DEADLINE_MS.with(|c| c.get()) != 0 && wire.len() > 12_000
}
fn past_deadline() -> bool {
    let d = DEADLINE_MS.with(|c| c.get());
    d != 0 && now_ms() > d
}

fn run_c03(ctx: &mut Ctx, rng: &mut Rng, thorough: bool, shard: usize, shards: usize, adversarial: bool) {
    let n = vh_proto::srcdict::scaled(if thorough { 600_000 } else { 60_000 } / shards);
    let class = if adversarial { "literal-interference" } else { "fidelity" };
    for i in 0..n {
        if past_deadline() {
            ctx.log.count("directed-pass-budget-reached");
            break;
        }
        let kind = (i * shards + shard) % KINDS.len();
        let cfg = cfg_for(i, adversarial || i % 3 == 0, thorough);
        let s = rng.next_u64();
        let ss = rng.next_u64();
        let (v, wire, desc) = match gen_and_print(s, kind, &cfg, ss) {
            Some(x) => x,
            None => {
                ctx.log.count("gen:panicked");
                continue;
            }
        };
        if too_large_for_directed(&wire) {
            ctx.log.count("directed:skipped-large");
            continue;
        }
        ctx.log.count(&format!("kind:{}", KINDS[kind]));
        ctx.log.nontrivial(&hex(&wire));
        let rest: Vec<u8> = if adversarial || rng.chance(1, 3) {
            // followed by further responses
            let mut r = rng.pick(SEEDS).to_vec();
            if rng.bool() {
                { let e: &&[u8] = rng.pick(SEEDS); r.extend_from_slice(e); }
            }
            r
        } else {
            vec![]
        };
        check_round_trip(ctx, &v, &wire, &rest, KINDS[kind], &desc, class);
        if adversarial {
            // non-interference: everything after the response is parsed as if it stood alone
            let out = verdict(&{
                let mut b = wire.clone();
                b.extend_from_slice(&rest);
                b
            });
            if let Some(c) = consumed_of(&out) {
                if c == wire.len() && !rest.is_empty() {
                    let alone = ctx.eval(&rest, "following");
                    let mut both = wire.clone();
                    both.extend_from_slice(&rest);
                    let after = verdict(&both[c..]);
                    if alone != after {
                        ctx.fail(
                            class,
                            format!("what follows {} parses differently", show_bytes(&wire)),
                            vec![format!("follow {} {}", hex(&both), c)],
                        );
                    }
                }
            }
        }
    }
}

fn run_c12(ctx: &mut Ctx, rng: &mut Rng, thorough: bool, shard: usize, shards: usize) {
    let n = vh_proto::srcdict::scaled(if thorough { 300_000 } else { 30_000 } / shards);
    for i in 0..n {
        if past_deadline() {
            ctx.log.count("directed-pass-budget-reached");
            break;
        }
        let kind = (i * shards + shard) % KINDS.len();
        let cfg = cfg_for(i, false, thorough);
        let s = rng.next_u64();
        let k = rng.range(2, 4);
        let mut outs: Vec<(Vec<u8>, String, String)> = vec![];
        for _ in 0..k {
            let ss = rng.next_u64();
            if let Some((_v, wire, desc)) = gen_and_print(s, kind, &cfg, ss) {
                if too_large_for_directed(&wire) {
                    ctx.log.count("directed:skipped-large");
                    continue;
                }
                let out = ctx.eval(&wire, KINDS[kind]);
                outs.push((wire, out, desc));
            }
        }
        // canonical spelling as well
        if let Some((_v, wire, desc)) = std::panic::catch_unwind(|| {
            let mut r1 = Rng::new(s);
            let v = gen_response_kind(&mut r1, &cfg, kind);
            let st = Style {
                random_case: false,
                string_forms: 0,
                zero_pad: 0,
                deviations: false,
                lsub: false,
            };
            let mut r2 = Rng::new(1);
            let w = print_response(&v, &mut r2, &st);
            (v, w, "canonical".to_string())
        })
        .ok()
        {
            let out = ctx.eval(&wire, KINDS[kind]);
            outs.push((wire, out, desc));
        }
        ctx.log.count(&format!("kind:{}", KINDS[kind]));
        if outs.len() < 2 {
            continue;
        }
        ctx.log.nontrivial(&format!("{}:{}", s, kind));
        let value_of = |o: &str| o.splitn(3, ' ').nth(2).unwrap_or("").to_string();
        let base = value_of(&outs[outs.len() - 1].1);
        let base_ok = outs[outs.len() - 1].1.starts_with("OK");
        for (wire, out, desc) in &outs[..outs.len() - 1] {
            let ok = out.starts_with("OK");
            if ok != base_ok || (ok && value_of(out) != base) {
                let canon = outs[outs.len() - 1].0.clone();
                ctx.fail(
                    "spelling-changes-value",
                    format!(
                        "two spellings of one {} value parse differently: {} [{}] -> {} ; canonical {} -> {}",
                        KINDS[kind],
                        show_bytes(wire),
                        desc,
                        clip(out, 200),
                        show_bytes(&canon),
                        clip(&outs[outs.len() - 1].1, 200)
                    ),
                    vec![format!("same {} {}", hex(wire), hex(&canon))],
                );
                break;
            }
        }
    }
}

// ------------------------------------------------------------------------------------------------
// C16

const ATTRS: &[(&str, &str)] = &[
    // (builder attribute, generator attribute kind)
    ("Body", "bodystructure"),
    ("Envelope", "envelope"),
    ("Flags", "flags"),
    ("InternalDate", "internaldate"),
    ("ModSeq", "modseq"),
    ("Rfc822", "rfc822"),
    ("Rfc822Size", "rfc822size"),
    ("Rfc822Text", "rfc822text"),
    ("Uid", "uid"),
    ("GmailLabels", "gmaillabels"),
    ("GmailMsgId", "gmailmsgid"),
];

fn attr_of(i: usize) -> Attribute {
    match i {
        0 => Attribute::Body,
        1 => Attribute::Envelope,
        2 => Attribute::Flags,
        3 => Attribute::InternalDate,
        4 => Attribute::ModSeq,
        5 => Attribute::Rfc822,
        6 => Attribute::Rfc822Size,
        7 => Attribute::Rfc822Text,
        8 => Attribute::Uid,
        9 => Attribute::GmailLabels,
        _ => Attribute::GmailMsgId,
    }
}

/// the non-extensible form: no extension data anywhere
fn strip_ext(b: BodyStructure<'static>) -> BodyStructure<'static> {
    fn common(mut c: BodyContentCommon<'static>, multipart: bool) -> BodyContentCommon<'static> {
        c.disposition = None;
        c.language = None;
        c.location = None;
        if multipart {
            c.ty.params = None;
        }
        c
    }
    match b {
        BodyStructure::Basic { common: c, mut other, .. } => {
            other.md5 = None;
            BodyStructure::Basic {
                common: common(c, false),
                other,
                extension: None,
            }
        }
        BodyStructure::Text { common: c, mut other, lines, .. } => {
            other.md5 = None;
            BodyStructure::Text {
                common: common(c, false),
                other,
                lines,
                extension: None,
            }
        }
        BodyStructure::Message {
            common: c,
            mut other,
            envelope,
            body,
            lines,
            ..
        } => {
            other.md5 = None;
            BodyStructure::Message {
                common: common(c, false),
                other,
                envelope,
                body: Box::new(strip_ext(*body)),
                lines,
                extension: None,
            }
        }
        BodyStructure::Multipart { common: c, bodies, .. } => BodyStructure::Multipart {
            common: common(c, true),
            bodies: bodies.into_iter().map(strip_ext).collect(),
            extension: None,
        },
    }
}

/// items a conformant server returns for the request (macros expanded per RFC 3501 6.4.5)
fn items_of_request(items: &Req) -> Vec<usize> {
    match items {
        Req::Attrs(v) => v.clone(),
        Req::Macro(0) => vec![2, 3, 6, 1],    // ALL  = FLAGS INTERNALDATE RFC822.SIZE ENVELOPE
        Req::Macro(1) => vec![2, 3, 6],       // FAST = FLAGS INTERNALDATE RFC822.SIZE
        Req::Macro(_) => vec![2, 3, 6, 1, 0], // FULL = ... BODY
    }
}

enum Req {
    Attrs(Vec<usize>),
    Macro(usize),
}

fn build_command(req: &Req) -> Command {
    let b = CommandBuilder::fetch().num(7);
    match req {
        Req::Macro(m) => b
            .attr_macro(match m {
                0 => AttrMacro::All,
                1 => AttrMacro::Fast,
                _ => AttrMacro::Full,
            })
            .into(),
        Req::Attrs(v) => {
            let mut it = v.iter();
            let mut c = b.attr(attr_of(*it.next().unwrap()));
            for a in it {
                c = c.attr(attr_of(*a));
            }
            c.into()
        }
    }
}

/// the data item names an RFC 3501 / RFC 7162 / Gmail reference server knows, mapped to the
/// generator kind of `ATTRS` (or to a literal reply item for names the builder does not offer today)
fn server_item(name: &str) -> Option<Result<usize, &'static [u8]>> {
    Some(match name {
        "BODY" => Ok(0),
        "ENVELOPE" => Ok(1),
        "FLAGS" => Ok(2),
        "INTERNALDATE" => Ok(3),
        "MODSEQ" => Ok(4),
        "RFC822" => Ok(5),
        "RFC822.SIZE" => Ok(6),
        "RFC822.TEXT" => Ok(7),
        "UID" => Ok(8),
        "X-GM-LABELS" => Ok(9),
        "X-GM-MSGID" => Ok(10),
        "BODYSTRUCTURE" => Err(b"BODYSTRUCTURE (\"TEXT\" \"PLAIN\" NIL NIL NIL \"7BIT\" 1 1)"),
        "RFC822.HEADER" => Err(b"RFC822.HEADER {3}\r\na\r\n"),
        "X-GM-THRID" => Err(b"X-GM-THRID 1278455344230334865"),
        _ => return None,
    })
}

/// what the reference server understands the request to ask for: the data item names in the
/// command text (macros expanded per RFC 3501 6.4.5)
fn names_in_command(args: &[u8]) -> Option<Vec<String>> {
    let text = std::str::from_utf8(args).ok()?;
    // `FETCH <set> <items> [modifiers]` or `UID FETCH <set> <items> [modifiers]`
    let text = text.strip_prefix("UID ").unwrap_or(text);
    let rest = text.splitn(3, ' ').nth(2)?;
    let items: Vec<String> = if let Some(inner) = rest.strip_prefix('(') {
        let end = inner.find(')')?;
        inner[..end].split(' ').map(|x| x.to_string()).collect()
    } else {
        vec![rest.split(' ').next()?.to_string()]
    };
    let mut out = vec![];
    for it in items {
        match it.as_str() {
            "ALL" => out.extend(["FLAGS", "INTERNALDATE", "RFC822.SIZE", "ENVELOPE"].iter().map(|x| x.to_string())),
            "FAST" => out.extend(["FLAGS", "INTERNALDATE", "RFC822.SIZE"].iter().map(|x| x.to_string())),
            "FULL" => out.extend(["FLAGS", "INTERNALDATE", "RFC822.SIZE", "ENVELOPE", "BODY"].iter().map(|x| x.to_string())),
            "" => return None,
            _ => out.push(it),
        }
    }
    Some(out)
}

fn eval_request(ctx: &mut Ctx, rng: &mut Rng, req: &Req, thorough: bool) {
    let cmd = build_command(req);
    // the reference server answers what the command text asks for
    let names = match names_in_command(&cmd.args) {
        Some(n) => n,
        None => {
            ctx.fail("request-unreadable", format!("the builder emits {} which is not a FETCH request a server can read", show_bytes(&cmd.args)), vec![]);
            return;
        }
    };
    let mut items: Vec<usize> = vec![];
    let mut extras: Vec<&'static [u8]> = vec![];
    for n in &names {
        match server_item(n) {
            Some(Ok(i)) => items.push(i),
            Some(Err(raw)) => extras.push(raw),
            None => {
                ctx.fail("unknown-item", format!("the builder emits {} : data item {} is not defined by RFC 3501 / 7162 / the Gmail extensions", show_bytes(&cmd.args), n), vec![]);
                return;
            }
        }
    }
    // and it must be what the caller asked for: one item per requested attribute
    let asked = items_of_request(req);
    if extras.is_empty() && items != asked {
        ctx.fail(
            "request-differs",
            format!("the builder emits {} for a request of {:?}", show_bytes(&cmd.args), asked.iter().map(|&i| ATTRS[i].0).collect::<Vec<_>>()),
            vec![],
        );
    }
    // three reference servers: the canonical one, one that uses every encoding freedom of the grammar, and
    // one that also sends strings holding a quote or backslash as quoted strings with escapes (there the
    // crate's value keeps the escapes, so only "accepted, one value of the right kind per item" is judged)
    let mode = rng.below(3);
    let cfg = GenCfg {
        max_depth: if thorough { 3 } else { 2 },
        adversarial: mode != 0 && rng.bool(),
        max_str: 10,
        max_lit: 40,
    };
    let s = rng.next_u64();
    let items2 = items.clone();
    let built = std::panic::catch_unwind(move || {
        let items = items2;
        let mut r = Rng::new(s);
        let mut vals: Vec<AttributeValue<'static>> = vec![];
        for &i in &items {
            let gk = ATTR_KINDS.iter().position(|k| *k == ATTRS[i].1).unwrap();
            let v = gen_attribute(&mut r, &cfg, gk);
            vals.push(match v {
                AttributeValue::BodyStructure(b) => AttributeValue::BodyStructure(strip_ext(b)),
                x => x,
            });
        }
        let seq = 7u32;
        // the reference server: `* 7 FETCH (item value ...)` - canonical spelling, and the
        // non-extensible `BODY (...)` for a BODY request
        let mut r2 = Rng::new(s ^ 5);
        let st = if mode == 0 {
            Style { random_case: false, string_forms: 0, zero_pad: 0, deviations: false, lsub: false }
        } else {
            Style { random_case: r2.bool(), string_forms: r2.below(3) as u8, zero_pad: if r2.bool() { 0 } else { 2 }, deviations: false, lsub: false }
        };
        let resp = Response::Fetch(seq, vals);
        let wire = if mode == 2 {
            vh_proto::print::with_escaped_quoted(|| print_response(&resp, &mut r2, &st))
        } else {
            print_response(&resp, &mut r2, &st)
        };
        (resp, wire)
    });
    let (resp, wire) = match built {
        Ok(x) => x,
        Err(_) => return,
    };
    // BODY request -> `BODY (` instead of `BODYSTRUCTURE (`
    let mut reply = vec![];
    let pat = b"BODYSTRUCTURE (";
    let mut i = 0;
    while i < wire.len() {
        if wire[i..].starts_with(pat) {
            reply.extend_from_slice(b"BODY (");
            i += pat.len();
        } else {
            reply.push(wire[i]);
            i += 1;
        }
    }
    if !extras.is_empty() {
        // items the builder asks for beyond its own attribute table: the server answers them too
        let tail = b")\r\n";
        if reply.ends_with(tail) {
            reply.truncate(reply.len() - tail.len());
            for e in &extras {
                if !reply.ends_with(b"(") {
                    reply.push(b' ');
                }
                reply.extend_from_slice(e);
            }
            reply.extend_from_slice(tail);
        }
        let out = ctx.eval(&reply, "fetch-reply");
        if !out.starts_with(&format!("OK {} ", reply.len())) {
            ctx.fail(
                "reply-rejected",
                format!("the builder emits {} ; a conformant reply {} is parsed as {}", show_bytes(&cmd.args), show_bytes(&reply), clip(&out, 200)),
                vec![format!("parse {}", hex(&reply))],
            );
        }
        return;
    }
    let out = ctx.eval(&reply, "fetch-reply");
    ctx.log.nontrivial(&hex(&reply));
    ctx.log.count(&format!("c16:items{}", items.len()));
    let want = format!("OK {} {}", reply.len(), ser::response(&resp));
    ctx.log.count(&format!("c16:server-mode{}", mode));
    let bad = if mode == 2 {
        // accepted whole, one value of the right kind per item
        !out.starts_with(&format!("OK {} ", reply.len())) || fetch_heads(&out) != fetch_heads(&want)
    } else {
        out != want
    };
    if bad {
        ctx.fail(
            "reply-rejected",
            format!(
                "the builder emits {} ; a conformant reply {} is parsed as {} (expected one value per item: {})",
                show_bytes(&cmd.args),
                show_bytes(&reply),
                clip(&out, 200),
                clip(&want, 200)
            ),
            vec![format!("expect {} {}", hex(&reply), hex(want.as_bytes()))],
        );
    }
}

/// the constructor names of the attribute values of a serialised `(Fetch n [ (Head ..) (Head ..) ])`
fn fetch_heads(s: &str) -> Vec<String> {
    let mut heads = vec![];
    let start = match s.find('[') {
        Some(i) => i + 1,
        None => return heads,
    };
    let b = s.as_bytes();
    let mut depth = 0i32;
    let mut i = start;
    while i < b.len() {
        match b[i] {
            b'(' | b'[' => {
                if depth == 0 && b[i] == b'(' {
                    let j = s[i + 1..].find(|c: char| c == ' ' || c == ')').map(|k| i + 1 + k).unwrap_or(b.len());
                    heads.push(s[i + 1..j].to_string());
                }
                depth += 1;
            }
            b')' | b']' => {
                depth -= 1;
                if depth < 0 {
                    break;
                }
            }
            _ => {}
        }
        i += 1;
    }
    heads
}

fn run_c16(ctx: &mut Ctx, rng: &mut Rng, thorough: bool, shard: usize, shards: usize) {
    let reps = if thorough { 40 } else { 4 };
    let mut idx = 0;
    // macros, every single attribute, every subset of size <= 3 (quick) / all 2^11 subsets (thorough)
    let mut reqs: Vec<Req> = vec![Req::Macro(0), Req::Macro(1), Req::Macro(2)];
    for mask in 1u32..(1 << 11) {
        let v: Vec<usize> = (0..11).filter(|i| mask & (1 << i) != 0).collect();
        if thorough || v.len() <= 3 {
            reqs.push(Req::Attrs(v));
        }
    }
    for req in &reqs {
        for _ in 0..reps {
            if past_deadline() {
                break;
            }
            idx += 1;
            if idx % shards != shard {
                continue;
            }
            eval_request(ctx, rng, req, thorough);
        }
    }
    // random orders (the builder emits attributes in call order)
    let n = vh_proto::srcdict::scaled(if thorough { 20_000 } else { 2_000 } / shards);
    for _ in 0..n {
        if past_deadline() {
            ctx.log.count("directed-pass-budget-reached");
            break;
        }
        let k = rng.range(1, 6) as usize;
        let v: Vec<usize> = (0..k).map(|_| rng.usize(11)).collect();
        eval_request(ctx, rng, &Req::Attrs(v), thorough);
    }
}

fn rule_of(prop: &str) -> &'static str {
    match prop {
        "C03" => "type-directed values of all 60 response kinds (boundary numerics, strings over the alphabet each position admits, body structures to depth 4 / 6) x random encoding choices of the independent RFC printer (keyword case, string form per position, zero padding, tolerated deviations), a third followed by further responses; non-trivial = distinct encoding",
        "C08" => "the same generator with adversarial literal contents (protocol look-alikes, CR, LF, quotes, parentheses, literal headers, 8-bit, up to 64 KiB) in every literal-capable position, always followed by further responses; non-trivial = distinct encoding",
        "C12" => "2..4 random spellings + the canonical spelling of one generated value, compared pairwise; non-trivial = distinct value",
        "C16" => "the three macros, every single attribute, every attribute subset of size <= 3 (quick) / all 2^11 subsets (thorough), random orders, each x generated message data rendered by a reference server (RFC 3501 7.4.2: BODY -> non-extensible body); non-trivial = distinct reply",
        _ => "",
    }
}

fn main() {
    std::panic::set_hook(Box::new(|_| {}));
    let args = Args::from_env();
    let prop = args.get_or("prop", "C03");
    let seed = args.num("seed", 1);
    let tier = args.get_or("tier", "quick");
    let thorough = tier == "thorough";
    let model = args.get_or("model", "/verif/lean/.lake/build/bin/imapmodel");
    let out = args.get_or("out", "/dev/stdout");
    let shards = args.num("shards", 12) as usize;
    if let Some(f) = args.get("replay") {
        let mut ctx = Ctx::new(&model);
        let text = std::fs::read_to_string(f).expect("replay file");
        let mut bad = 0;
        let value_of = |o: &str| o.splitn(3, ' ').nth(2).unwrap_or("").to_string();
        for line in text.lines() {
            let f: Vec<&str> = line.split_whitespace().collect();
            if f.is_empty() || f[0].starts_with('#') {
                continue;
            }
            match f[0] {
                "parse" if f.len() >= 2 => {
                    let b = unhex(f[1]);
                    let v = ctx.eval(&b, "replay");
                    println!("input {}", show_bytes(&b));
                    println!("impl  {}", clip(&v, 600));
                }
                "expect" if f.len() >= 3 => {
                    let b = unhex(f[1]);
                    let want = String::from_utf8_lossy(&unhex(f[2])).to_string();
                    let v = ctx.eval(&b, "replay");
                    println!("input {}", show_bytes(&b));
                    println!("impl  {}", clip(&v, 600));
                    println!("want  {}", clip(&want, 600));
                    if v != want {
                        println!("ORACLE-FAIL the parsed value / consumed length is not the one sent");
                        bad += 1;
                    }
                }
                "follow" if f.len() >= 3 => {
                    let both = unhex(f[1]);
                    let c: usize = f[2].parse().unwrap_or(0);
                    let first = ctx.eval(&both, "replay");
                    println!("input {}", show_bytes(&both));
                    println!("impl  {}", clip(&first, 600));
                    if consumed_of(&first) != Some(c) {
                        println!("ORACLE-FAIL the response no longer ends after {} bytes", c);
                        bad += 1;
                    }
                }
                "same" if f.len() >= 3 => {
                    let a = unhex(f[1]);
                    let b = unhex(f[2]);
                    let va = ctx.eval(&a, "replay");
                    let vb = ctx.eval(&b, "replay");
                    println!("a     {} -> {}", show_bytes(&a), clip(&va, 400));
                    println!("b     {} -> {}", show_bytes(&b), clip(&vb, 400));
                    if va.starts_with("OK") != vb.starts_with("OK") || (va.starts_with("OK") && value_of(&va) != value_of(&vb)) {
                        println!("ORACLE-FAIL two spellings of one value parse differently");
                        bad += 1;
                    }
                }
                _ => {}
            }
        }
        ctx.flush();
        for d in &ctx.log.disagreements {
            println!("DISAGREE impl={} model={}", d.imp, d.model);
            bad += 1;
        }
        std::process::exit(if bad > 0 { 1 } else { 0 });
    }
    let total = Mutex::new(Log::default());
    std::thread::scope(|s| {
        for shard in 0..shards {
            let total = &total;
            let prop = prop.clone();
            let model = model.clone();
            s.spawn(move || {
                let mut ctx = Ctx::new(&model);
                let mut rng = Rng::new(seed.wrapping_mul(1000003).wrapping_add(shard as u64));
                // around the nesting budget of body structures (1..40 levels of every kind of nesting): the
                // implementation has to read what the model reads - and for C16 a reply to BODY /
                // BODYSTRUCTURE / FULL that the model reads is a reply the client must be able to read
                for d in 1..=40usize {
                    if d % shards != shard {
                        continue;
                    }
                    for (input, label) in vh_proto::parsecommon::nesting_boundary_inputs(d) {
                        let out = ctx.eval(&input, "nesting-boundary");
                        ctx.log.count("nesting-boundary");
                        ctx.log.nontrivial(&hex(&input));
                        let _ = (out, label);
                    }
                }
                match prop.as_str() {
                    "C03" => run_c03(&mut ctx, &mut rng, thorough, shard, shards, false),
                    "C08" => run_c03(&mut ctx, &mut rng, thorough, shard, shards, true),
                    "C12" => run_c12(&mut ctx, &mut rng, thorough, shard, shards),
                    "C16" => run_c16(&mut ctx, &mut rng, thorough, shard, shards),
                    _ => {}
                }
                // directed passes: one per constant of /repo's sources that the baseline does not have
                // the budget is per shard (thread-local) and starts after the shard's ordinary run
                DEADLINE_MS.with(|c| c.set(now_ms() + if thorough { 900_000 } else { 90_000 }));
                for (fo, _name) in vh_proto::srcdict::foci() {
                    vh_proto::srcdict::with_focus(fo, || match prop.as_str() {
                        "C03" => run_c03(&mut ctx, &mut rng, thorough, shard, shards, false),
                        "C08" => run_c03(&mut ctx, &mut rng, thorough, shard, shards, true),
                        "C12" => run_c12(&mut ctx, &mut rng, thorough, shard, shards),
                        "C16" => run_c16(&mut ctx, &mut rng, thorough, shard, shards),
                        _ => {}
                    });
                    ctx.log.count("source-constant-pass");
                }
                ctx.flush();
                total.lock().unwrap().merge(ctx.log);
            });
        }
    });
    let mut log = total.into_inner().unwrap();
    // samples
    let mut srng = Rng::new(seed);
    for k in [4usize, 28, 40] {
        let cfg = cfg_for(1, prop == "C08", false);
        if let Some((_v, wire, desc)) = gen_and_print(srng.next_u64(), k % KINDS.len(), &cfg, srng.next_u64()) {
            log.sample(format!("{} [{}]: {} -> {}", KINDS[k % KINDS.len()], desc, show_bytes(&wire), clip(&verdict(&wire), 200)));
        }
    }
    std::fs::write(&out, log.to_json(&prop, seed, &tier, rule_of(&prop))).expect("write out");
    println!(
        "prop={} evaluations={} compared={} distinct_nontrivial={} disagreements={} oracle_failures={}",
        prop, log.evaluations, log.compared, log.nontrivial.len(), log.n_disagreements, log.n_oracle_failures
    );
}
