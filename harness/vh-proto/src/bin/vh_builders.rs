//! Builder-side correspondence + oracles: C10 (text arguments are quoted injectively) and C14 (typed
//! builders emit exactly the command requested, and only grammatical ones).
//! Implementation = imap_proto::builders::command, model = Builders.lean through the driver.

use imap_proto::builders::command::{fetch, Command, CommandBuilder, FetchCommand};
use imap_proto::types::{AttrMacro, Attribute};
use std::cell::RefCell;
use std::sync::Mutex;
use vh_proto::prng::{hex, Rng};
use vh_proto::run::*;

thread_local! {
    static LAST_PANIC: RefCell<String> = RefCell::new(String::new());
}

struct Ctx {
    model: Model,
    log: Log,
    ops: Vec<String>,
    imps: Vec<String>,
}

impl Ctx {
    fn new(model: &str) -> Ctx {
        Ctx {
            model: Model::spawn(model).expect("spawn model"),
            log: Log::default(),
            ops: vec![],
            imps: vec![],
        }
    }
    fn queue(&mut self, op: String, imp: String) {
        self.log.evaluations += 1;
        self.ops.push(op);
        self.imps.push(imp);
        if self.ops.len() >= 4000 {
            self.flush();
        }
    }
    fn flush(&mut self) {
        if self.ops.is_empty() {
            return;
        }
        let replies = self.model.eval_batch(&self.ops);
        for i in 0..self.ops.len() {
            self.log.compared += 1;
            if replies[i] != self.imps[i] {
                self.log.disagree(Disagreement {
                    op: self.ops[i].clone(),
                    imp: self.imps[i].clone(),
                    model: replies[i].clone(),
                    note: String::new(),
                });
            }
        }
        self.ops.clear();
        self.imps.clear();
    }
    fn fail(&mut self, class: &str, what: String, op: &str) {
        self.log.oracle_fail(OracleFailure {
            class: class.to_string(),
            what,
            ops: vec![op.to_string()],
            known: String::new(),
        });
    }
}

fn harg(b: &[u8]) -> String {
    if b.is_empty() {
        "-".to_string()
    } else {
        hex(b)
    }
}

// ------------------------------------------------------------------------------------------------
// C10

#[derive(Clone, Copy, Debug)]
enum TextCmd {
    Login,
    List,
    Select,
    Examine,
    SelectCs,
    ExamineCs,
}

const TEXT_CMDS: &[TextCmd] = &[
    TextCmd::Login,
    TextCmd::List,
    TextCmd::Select,
    TextCmd::Examine,
    TextCmd::SelectCs,
    TextCmd::ExamineCs,
];

fn text_name(c: TextCmd) -> &'static str {
    match c {
        TextCmd::Login => "login",
        TextCmd::List => "list",
        TextCmd::Select => "select",
        TextCmd::Examine => "examine",
        TextCmd::SelectCs => "select_cs",
        TextCmd::ExamineCs => "examine_cs",
    }
}

fn verb(c: TextCmd) -> &'static str {
    match c {
        TextCmd::Login => "LOGIN",
        TextCmd::List => "LIST",
        TextCmd::Select | TextCmd::SelectCs => "SELECT",
        TextCmd::Examine | TextCmd::ExamineCs => "EXAMINE",
    }
}

fn two_args(c: TextCmd) -> bool {
    matches!(c, TextCmd::Login | TextCmd::List)
}

/// run the builder; `OK <hex>` | `REFUSED` (the documented refusal: panic carrying the CR/LF
/// message) | `PANIC` (any other panic)
fn run_text(c: TextCmd, a: &str, b: &str) -> String {
    let r = std::panic::catch_unwind(|| -> Vec<u8> {
        match c {
            TextCmd::Login => CommandBuilder::login(a, b).args,
            TextCmd::List => CommandBuilder::list(a, b).args,
            TextCmd::Select => Command::from(CommandBuilder::select(a)).args,
            TextCmd::Examine => Command::from(CommandBuilder::examine(a)).args,
            TextCmd::SelectCs => Command::from(CommandBuilder::select(a).cond_store()).args,
            TextCmd::ExamineCs => Command::from(CommandBuilder::examine(a).cond_store()).args,
        }
    });
    match r {
        Ok(args) => format!("OK {}", hex(&args)),
        Err(_) => {
            let msg = LAST_PANIC.with(|m| m.borrow().clone());
            if msg.contains("CR and LF not allowed") {
                "REFUSED".to_string()
            } else {
                "PANIC".to_string()
            }
        }
    }
}

/// independent lexer of one quoted string at the front of `b`: returns (unescaped content, rest)
fn lex_quoted(b: &[u8]) -> Option<(Vec<u8>, &[u8])> {
    if b.first() != Some(&b'"') {
        return None;
    }
    let mut out = vec![];
    let mut i = 1;
    while i < b.len() {
        match b[i] {
            b'"' => return Some((out, &b[i + 1..])),
            b'\\' => {
                if i + 1 >= b.len() {
                    return None;
                }
                let d = b[i + 1];
                if d != b'"' && d != b'\\' {
                    return None;
                }
                out.push(d);
                i += 2;
            }
            b'\r' | b'\n' => return None,
            c => {
                out.push(c);
                i += 1;
            }
        }
    }
    None
}

/// C10 oracle on the implementation's output
fn oracle_c10(ctx: &mut Ctx, c: TextCmd, a: &str, b: &str, imp: &str, op: &str) {
    let has_crlf = |s: &str| s.bytes().any(|x| x == b'\r' || x == b'\n');
    let must_refuse = has_crlf(a) || (two_args(c) && has_crlf(b));
    if imp == "PANIC" {
        ctx.fail("panic", format!("{:?}({:?}, {:?}) panicked other than by refusal", c, a, b), op);
        return;
    }
    if must_refuse {
        if imp != "REFUSED" {
            ctx.fail(
                "crlf-emitted",
                format!("{:?}({:?}, {:?}) contains CR/LF but was not refused: {}", c, a, b, imp),
                op,
            );
        }
        return;
    }
    if imp == "REFUSED" {
        ctx.fail("refused", format!("{:?}({:?}, {:?}) refused without CR/LF", c, a, b), op);
        return;
    }
    let line = vh_proto::prng::unhex(&imp[3..]);
    let bad = |ctx: &mut Ctx, why: &str| {
        ctx.fail(
            "not-injective",
            format!("{:?}({:?}, {:?}) emitted {} : {}", c, a, b, show_bytes(&line), why),
            op,
        );
    };
    if line.iter().any(|&x| x == b'\r' || x == b'\n') {
        return bad(ctx, "line contains CR or LF");
    }
    let v = verb(c).as_bytes();
    if !line.starts_with(v) || line.get(v.len()) != Some(&b' ') {
        return bad(ctx, "verb");
    }
    let rest = &line[v.len() + 1..];
    let (q1, rest) = match lex_quoted(rest) {
        Some(x) => x,
        None => return bad(ctx, "first argument is not one quoted string"),
    };
    if q1 != a.as_bytes() {
        return bad(ctx, "first argument does not unescape to the text given");
    }
    let rest = if two_args(c) {
        if rest.first() != Some(&b' ') {
            return bad(ctx, "separator");
        }
        let (q2, rest) = match lex_quoted(&rest[1..]) {
            Some(x) => x,
            None => return bad(ctx, "second argument is not one quoted string"),
        };
        if q2 != b.as_bytes() {
            return bad(ctx, "second argument does not unescape to the text given");
        }
        rest
    } else {
        rest
    };
    let tail: &[u8] = match c {
        TextCmd::SelectCs | TextCmd::ExamineCs => b" (CONDSTORE)",
        _ => b"",
    };
    if rest != tail {
        bad(ctx, "trailing bytes after the arguments");
    }
}

thread_local! {
    static OFFSET: std::cell::Cell<usize> = const { std::cell::Cell::new(0) };
}

fn eval_text(ctx: &mut Ctx, c: TextCmd, a: &str, b: &str) {
    // the arguments are handed over as sub-slices of larger strings, at a rotating offset 0..7 from the
    // start of the allocation: what the builder emits must not depend on where in memory the text lies
    // (word-at-a-time scanners treat the bytes in front of the first word boundary separately)
    let k = OFFSET.with(|o| {
        let v = o.get();
        o.set((v + 1) % 8);
        v
    });
    let abuf = format!("{}{}", &"ppppppp"[..k], a);
    let bbuf = format!("{}{}", &"ppppppp"[..(k + 3) % 8], b);
    let a = &abuf[k..];
    let b = &bbuf[(k + 3) % 8..];
    ctx.log.count(&format!("c10:offset{}", k));
    let imp = run_text(c, a, b);
    let op = if two_args(c) {
        format!("text {} {} {}", text_name(c), harg(a.as_bytes()), harg(b.as_bytes()))
    } else {
        format!("text {} {}", text_name(c), harg(a.as_bytes()))
    };
    ctx.log.count(&format!("c10:{}", text_name(c)));
    ctx.log.count(match &imp[..2] {
        "OK" => "c10:emitted",
        "RE" => "c10:refused",
        _ => "c10:panic",
    });
    if a.bytes().any(|x| matches!(x, b'"' | b'\\' | b'\r' | b'\n')) || b.bytes().any(|x| matches!(x, b'"' | b'\\' | b'\r' | b'\n')) {
        ctx.log.nontrivial(&op);
    }
    oracle_c10(ctx, c, a, b, &imp, &op);
    ctx.queue(op, imp);
}

fn text_len(rng: &mut Rng, max: usize) -> usize {
    // a constant of /repo's sources as the length (block sizes, thresholds), else the usual spread
    if let Some(c) = vh_proto::srcdict::int_le(rng, 70_000, 24) {
        return c as usize;
    }
    match rng.below(5) {
        0 => rng.usize(4),
        1 => rng.usize(16),
        2 => rng.usize(64),
        3 => *rng.pick(&[31usize, 32, 33, 63, 64, 65, 127, 128, 129, 255, 256, 257, 511, 512, 513, 1023, 1024, 1025, 4095, 4096, 4097]),
        _ => rng.usize(max + 1),
    }
}

fn special_char(rng: &mut Rng) -> char {
    match rng.below(8) {
        0 => '"',
        1 => '\\',
        2 => '\r',
        3 => '\n',
        4 => *rng.pick(&[' ', '{', '(', ')', '}', '%', '*', '\t', '\0', '\x7f', '\x0b', '\x0c']),
        5 => *rng.pick(&['\u{85}', '\u{2028}', '\u{2029}', '\u{a0}', '\u{feff}', '\u{200b}', '\u{ff02}', '\u{201c}', '\u{ff3c}', '\u{10a}', '\u{10d}']),
        6 => char::from_u32(rng.range(0, 0x1f) as u32).unwrap(),
        _ => char::from_u32(rng.range(0x80, 0x7ff) as u32).unwrap_or('é'),
    }
}

fn random_text(rng: &mut Rng, max: usize) -> String {
    if let Some(v) = vh_proto::srcdict::content(rng, 40, true) {
        if let Ok(t) = String::from_utf8(v) {
            return t;
        }
    }
    let n = text_len(rng, max);
    if rng.chance(2, 5) {
        // sparse: ordinary text with one to three special characters at chosen positions (start, end,
        // block boundaries, anywhere) - what a fast path over 'clean' stretches would skip
        let fill: char = *rng.pick(&['x', 'a', ' ', '.', '0', 'é', '日']);
        let mut cs: Vec<char> = (0..n).map(|_| if rng.chance(1, 12) { char::from_u32(rng.range(0x20, 0x7e) as u32).unwrap() } else { fill }).collect();
        for c in cs.iter_mut() {
            if *c == '"' || *c == '\\' {
                *c = fill;
            }
        }
        if n > 0 {
            let k = rng.range(1, 3);
            for _ in 0..k {
                let pos = match rng.below(6) {
                    0 => 0,
                    1 => n - 1,
                    2 => n / 2,
                    3 => match vh_proto::srcdict::int_le(rng, n as u64, 1) {
                        Some(p) => std::cmp::min(p as usize, n - 1),
                        None => rng.usize(n),
                    },
                    4 => {
                        let b = *rng.pick(&[8usize, 16, 32, 64, 128, 256, 512, 1024, 4096]);
                        let m = rng.range(0, (n / b) as u64) as usize * b;
                        std::cmp::min(m.saturating_sub(rng.usize(2)), n - 1)
                    }
                    _ => rng.usize(n),
                };
                cs[pos] = special_char(rng);
            }
        }
        return cs.into_iter().collect();
    }
    let mut s = String::new();
    for _ in 0..n {
        let c = match rng.below(10) {
            0 => '"',
            1 => '\\',
            2 => *rng.pick(&['\r', '\n', ' ', '{', '(', ')', '}', '%', '*']),
            3 => char::from_u32(rng.range(0x80, 0x7ff) as u32).unwrap_or('é'),
            4 => char::from_u32(rng.range(0x800, 0xd7ff) as u32).unwrap_or('€'),
            5 => char::from_u32(rng.range(0x10000, 0x10ffff) as u32).unwrap_or('😀'),
            6 => char::from_u32(rng.range(0, 0x1f) as u32).unwrap(),
            _ => char::from_u32(rng.range(0x20, 0x7e) as u32).unwrap(),
        };
        // keep CR/LF rare enough that most strings are emitted
        if (c == '\r' || c == '\n') && !rng.chance(1, 6) {
            s.push('x');
        } else {
            s.push(c);
        }
    }
    s
}

fn run_c10(ctx: &mut Ctx, rng: &mut Rng, thorough: bool, shard: usize, shards: usize) {
    // exhaustive: every ASCII string up to length 2 (quick) / 3 (thorough), in each of the 6+2 slots
    let maxlen = if thorough { 3 } else { 2 };
    let mut idx = 0usize;
    let mut strings: Vec<String> = vec![String::new()];
    for len in 1..=maxlen {
        let mut cur = vec![0u8; len];
        loop {
            strings.push(String::from_utf8(cur.clone()).unwrap());
            let mut k = len;
            loop {
                if k == 0 {
                    break;
                }
                k -= 1;
                if cur[k] < 127 {
                    cur[k] += 1;
                    break;
                } else {
                    cur[k] = 0;
                    if k == 0 {
                        k = usize::MAX;
                        break;
                    }
                }
            }
            if k == usize::MAX {
                break;
            }
        }
    }
    for s in &strings {
        for &c in TEXT_CMDS {
            idx += 1;
            if idx % shards != shard {
                continue;
            }
            eval_text(ctx, c, s, "x");
            if two_args(c) {
                eval_text(ctx, c, "x", s);
            }
        }
    }
    run_c10_random(ctx, rng, thorough, shards);
}

fn run_c10_random(ctx: &mut Ctx, rng: &mut Rng, thorough: bool, shards: usize) {
    // also the raw quoted_string through `qstr` is covered by the text ops (model composes them)
    let n = vh_proto::srcdict::scaled(if thorough { 500_000 } else { 40_000 } / shards);
    for _ in 0..n {
        let a = random_text(rng, 1024);
        let b = random_text(rng, 64);
        let c = *rng.pick(TEXT_CMDS);
        eval_text(ctx, c, &a, &b);
    }
}

// ------------------------------------------------------------------------------------------------
// C14

#[derive(Clone, Debug, PartialEq)]
enum Call {
    Num(u32),
    Range(u32, u32),
    RangeFrom(u32),
    Attr(usize),
    Macro(usize),
    ChangedSince(u64),
}

fn attr_of(i: usize) -> Attribute {
    match i {
        0 => Attribute::Body,
        1 => Attribute::Envelope,
        2 => Attribute::Flags,
        3 => Attribute::InternalDate,
        4 => Attribute::ModSeq,
        5 => Attribute::Rfc822,
        6 => Attribute::Rfc822Size,
        7 => Attribute::Rfc822Text,
        8 => Attribute::Uid,
        9 => Attribute::GmailLabels,
        _ => Attribute::GmailMsgId,
    }
}
const ATTR_NAMES: &[&str] = &[
    "Body", "Envelope", "Flags", "InternalDate", "ModSeq", "Rfc822", "Rfc822Size", "Rfc822Text", "Uid",
    "GmailLabels", "GmailMsgId",
];
/// the RFC 3501 / 4551 / Gmail keyword each attribute must be emitted as (independent of the crate)
const ATTR_KEYWORDS: &[&str] = &[
    "BODY", "ENVELOPE", "FLAGS", "INTERNALDATE", "MODSEQ", "RFC822", "RFC822.SIZE", "RFC822.TEXT", "UID",
    "X-GM-LABELS", "X-GM-MSGID",
];
fn macro_of(i: usize) -> AttrMacro {
    match i {
        0 => AttrMacro::All,
        1 => AttrMacro::Fast,
        _ => AttrMacro::Full,
    }
}
const MACRO_NAMES: &[&str] = &["All", "Fast", "Full"];
const MACRO_KEYWORDS: &[&str] = &["ALL", "FAST", "FULL"];

/// the builder in one of its typestates
enum B {
    E(FetchCommand<fetch::Empty>),
    M(FetchCommand<fetch::Messages>),
    A(FetchCommand<fetch::Attributes>),
    Mo(FetchCommand<fetch::Modifiers>),
    C(FetchCommand<fetch::Complete>),
}

/// every transition the type system admits (this function is compiled Rust: an absent arm is a
/// method the API does not offer in that state)
fn apply(b: B, c: &Call) -> Option<B> {
    Some(match (b, c) {
        (B::E(x), Call::Num(n)) => B::M(x.num(*n)),
        (B::E(x), Call::Range(a, z)) => B::M(x.range(*a..=*z)),
        (B::E(x), Call::RangeFrom(a)) => B::M(x.range_from(*a..)),
        (B::M(x), Call::Num(n)) => B::M(x.num(*n)),
        (B::M(x), Call::Range(a, z)) => B::M(x.range(*a..=*z)),
        (B::M(x), Call::RangeFrom(a)) => B::M(x.range_from(*a..)),
        (B::M(x), Call::Macro(m)) => B::Mo(x.attr_macro(macro_of(*m))),
        (B::M(x), Call::Attr(a)) => B::A(x.attr(attr_of(*a))),
        (B::A(x), Call::Attr(a)) => B::A(x.attr(attr_of(*a))),
        (B::A(x), Call::ChangedSince(n)) => B::C(x.changed_since(*n)),
        (B::Mo(x), Call::ChangedSince(n)) => B::C(x.changed_since(*n)),
        _ => return None,
    })
}

fn finish(b: B) -> Option<Command> {
    match b {
        B::A(x) => Some(x.into()),
        B::Mo(x) => Some(x.into()),
        B::C(x) => Some(x.into()),
        _ => None,
    }
}

#[derive(Clone, Copy, PartialEq, Debug)]
enum St {
    E,
    M,
    A,
    Mo,
    C,
}

fn st_of(b: &B) -> St {
    match b {
        B::E(_) => St::E,
        B::M(_) => St::M,
        B::A(_) => St::A,
        B::Mo(_) => St::Mo,
        B::C(_) => St::C,
    }
}

fn call_tok(c: &Call) -> String {
    match c {
        Call::Num(n) => format!("n:{}", n),
        Call::Range(a, b) => format!("r:{}:{}", a, b),
        Call::RangeFrom(a) => format!("f:{}", a),
        Call::Attr(a) => format!("a:{}", ATTR_NAMES[*a]),
        Call::Macro(m) => format!("m:{}", MACRO_NAMES[*m]),
        Call::ChangedSince(n) => format!("c:{}", n),
    }
}

/// independent recogniser of `fetch` (RFC 3501 section 9 `fetch`, `sequence-set`; RFC 4466
/// `fetch-modifiers`; RFC 4551 `CHANGEDSINCE`): returns the AST as a list of calls
fn recognize_fetch(line: &[u8]) -> Option<(bool, Vec<Call>)> {
    let s = std::str::from_utf8(line).ok()?;
    let (uid, rest) = if let Some(r) = s.strip_prefix("UID FETCH ") {
        (true, r)
    } else if let Some(r) = s.strip_prefix("FETCH ") {
        (false, r)
    } else {
        return None;
    };
    let sp = rest.find(' ')?;
    let (set, rest) = (&rest[..sp], &rest[sp + 1..]);
    let mut calls = vec![];
    let nz = |t: &str| -> Option<u32> {
        if t.is_empty() || t.starts_with('0') || !t.bytes().all(|c| c.is_ascii_digit()) {
            return None;
        }
        t.parse::<u32>().ok()
    };
    for item in set.split(',') {
        if let Some((a, b)) = item.split_once(':') {
            if b == "*" {
                calls.push(Call::RangeFrom(nz(a)?));
            } else {
                calls.push(Call::Range(nz(a)?, nz(b)?));
            }
        } else {
            calls.push(Call::Num(nz(item)?));
        }
    }
    // items
    let rest = if let Some(r) = rest.strip_prefix('(') {
        let close = r.find(')')?;
        let inner = &r[..close];
        if inner.is_empty() {
            return None;
        }
        for kw in inner.split(' ') {
            let i = ATTR_KEYWORDS.iter().position(|k| *k == kw)?;
            calls.push(Call::Attr(i));
        }
        &r[close + 1..]
    } else {
        let end = rest.find(' ').unwrap_or(rest.len());
        let kw = &rest[..end];
        let i = MACRO_KEYWORDS.iter().position(|k| *k == kw)?;
        calls.push(Call::Macro(i));
        &rest[end..]
    };
    // at most one modifier list
    if rest.is_empty() {
        return Some((uid, calls));
    }
    let r = rest.strip_prefix(" (CHANGEDSINCE ")?;
    let close = r.find(')')?;
    let v = &r[..close];
    if v.is_empty() || v.starts_with('0') || !v.bytes().all(|c| c.is_ascii_digit()) {
        return None;
    }
    calls.push(Call::ChangedSince(v.parse::<u64>().ok()?));
    if !r[close + 1..].is_empty() {
        return None;
    }
    Some((uid, calls))
}

fn eval_chain(ctx: &mut Ctx, uid: bool, calls: &[Call]) {
    let mut b = if uid {
        B::E(CommandBuilder::uid_fetch())
    } else {
        B::E(CommandBuilder::fetch())
    };
    for c in calls {
        b = match apply(b, c) {
            Some(x) => x,
            None => return,
        };
    }
    let cmd = match finish(b) {
        Some(c) => c,
        None => return,
    };
    let op = format!(
        "fetch {} {}",
        if uid { 1 } else { 0 },
        calls.iter().map(call_tok).collect::<Vec<_>>().join(" ")
    );
    let imp = format!("OK {}", hex(&cmd.args));
    ctx.log.count(&format!("c14:len{}", calls.len()));
    ctx.log.nontrivial(&op);
    match recognize_fetch(&cmd.args) {
        Some((u, ast)) if u == uid && ast == calls => {}
        other => {
            ctx.fail(
                "ungrammatical-or-wrong",
                format!(
                    "chain {} emitted {} which the command grammar recognises as {:?}",
                    op,
                    show_bytes(&cmd.args),
                    other
                ),
                &op,
            );
        }
    }
    if cmd.next_state.is_some() {
        ctx.fail("next-state", format!("FETCH must not change the connection state: {}", op), &op);
    }
    ctx.queue(op, imp);
}

const BOUNDARY32: &[u32] = &[9, 10, 99, 100, 255, 256, 65535, 65536, (1 << 31) - 1, (1 << 31) + 1, u32::MAX - 1];

fn alphabet(st: St, wide: bool) -> Vec<Call> {
    let mut v = vec![];
    let nums: &[u32] = if wide { &[1, 2, 1 << 31, u32::MAX] } else { &[1, u32::MAX] };
    let msgs = |v: &mut Vec<Call>| {
        for &n in nums {
            v.push(Call::Num(n));
        }
        v.push(Call::Range(1, 1 << 31));
        if wide {
            v.push(Call::Range(u32::MAX, 2));
            v.push(Call::RangeFrom(u32::MAX));
            // every end of a range at the ends of the number space and at equal ends
            for (a, b) in [(1, u32::MAX), (u32::MAX, u32::MAX), (u32::MAX - 1, u32::MAX), (1, 1), (2, 1), (u32::MAX, 1),
                           (1001, u32::MAX), (5, 5), (1, u32::MAX - 1), ((1 << 31) - 1, (1 << 31) + 1)] {
                v.push(Call::Range(a, b));
            }
            for a in [1, u32::MAX - 1, (1 << 31) + 1] {
                v.push(Call::RangeFrom(a));
            }
            for n in BOUNDARY32 {
                v.push(Call::Num(*n));
            }
        }
        v.push(Call::RangeFrom(2));
    };
    let cs = |v: &mut Vec<Call>| {
        v.push(Call::ChangedSince(1));
        v.push(Call::ChangedSince(u64::MAX));
        if wide {
            v.push(Call::ChangedSince(1 << 32));
            v.push(Call::ChangedSince(1 << 63));
            for n in [2, (1u64 << 32) - 1, (1u64 << 32) + 1, (1u64 << 63) - 1, (1u64 << 63) + 1, u64::MAX - 1, 9, 10, 99, 100] {
                v.push(Call::ChangedSince(n));
            }
        }
    };
    match st {
        St::E => msgs(&mut v),
        St::M => {
            msgs(&mut v);
            for m in 0..3 {
                v.push(Call::Macro(m));
            }
            for a in 0..11 {
                v.push(Call::Attr(a));
            }
        }
        St::A => {
            for a in 0..11 {
                v.push(Call::Attr(a));
            }
            cs(&mut v);
        }
        St::Mo => cs(&mut v),
        St::C => {}
    }
    v
}

/// state after a call sequence, by running the real builder
fn state_after(uid: bool, calls: &[Call]) -> Option<St> {
    let mut b = if uid {
        B::E(CommandBuilder::uid_fetch())
    } else {
        B::E(CommandBuilder::fetch())
    };
    for c in calls {
        b = apply(b, c)?;
    }
    Some(st_of(&b))
}

fn enumerate(ctx: &mut Ctx, uid: bool, prefix: &mut Vec<Call>, depth: usize, counter: &mut usize, shard: usize, shards: usize) {
    let st = match state_after(uid, prefix) {
        Some(s) => s,
        None => return,
    };
    if !prefix.is_empty() {
        *counter += 1;
        if *counter % shards == shard {
            eval_chain(ctx, uid, prefix);
        }
    }
    if depth == 0 {
        return;
    }
    for c in alphabet(st, false) {
        prefix.push(c);
        enumerate(ctx, uid, prefix, depth - 1, counter, shard, shards);
        prefix.pop();
    }
}

fn run_c14(ctx: &mut Ctx, rng: &mut Rng, thorough: bool, shard: usize, shards: usize) {
    let depth = if thorough { 5 } else { 4 };
    let mut counter = 0usize;
    for uid in [false, true] {
        enumerate(ctx, uid, &mut vec![], depth, &mut counter, shard, shards);
    }
    run_c14_random(ctx, rng, thorough, shards);
    run_c14_rest(ctx, shard);
}

fn num32(rng: &mut Rng) -> u32 {
    // uniform, or a constant of /repo's sources, or a decimal shape: round numbers, zero digit groups, repeated digits
    if let Some(c) = vh_proto::srcdict::int_le(rng, u32::MAX as u64, 6) {
        return std::cmp::max(c, 1) as u32;
    }
    match rng.below(4) {
        0 => {
            let k = rng.range(0, 9) as u32;
            let m = rng.range(1, 42) as u64;
            std::cmp::min(m * 10u64.pow(k) + if rng.bool() { rng.range(0, 9) } else { 0 }, u32::MAX as u64) as u32
        }
        1 => vh_proto::gen::gen_u32(rng).max(1),
        _ => rng.range(1, u32::MAX as u64) as u32,
    }
}

fn run_c14_random(ctx: &mut Ctx, rng: &mut Rng, thorough: bool, shards: usize) {
    // random chains up to 9 calls, wide numeric alphabet
    let n = vh_proto::srcdict::scaled(if thorough { 200_000 } else { 20_000 } / shards);
    for _ in 0..n {
        let uid = rng.bool();
        let mut calls = vec![];
        let len = rng.range(2, 9) as usize;
        for _ in 0..len {
            let st = state_after(uid, &calls).unwrap();
            let alpha = alphabet(st, true);
            if alpha.is_empty() {
                break;
            }
            let mut c = rng.pick(&alpha).clone();
            // random numbers as well as boundaries
            if rng.chance(1, 3) {
                c = match c {
                    Call::Num(_) => Call::Num(num32(rng)),
                    Call::Range(_, _) => {
                        let mut end = |rng: &mut Rng| -> u32 {
                            if rng.chance(1, 3) { *rng.pick(&[1u32, 2, u32::MAX, u32::MAX - 1, 1 << 31]) } else { num32(rng) }
                        };
                        let a = end(rng);
                        let b = end(rng);
                        Call::Range(a, b)
                    }
                    Call::RangeFrom(_) => Call::RangeFrom(num32(rng)),
                    Call::ChangedSince(_) => Call::ChangedSince(if rng.bool() { rng.range(1, u64::MAX - 1) } else { vh_proto::gen::gen_u64(rng).clamp(1, u64::MAX - 1) }),
                    x => x,
                };
            }
            calls.push(c);
            // stop early sometimes, but only in a convertible state
            if rng.chance(1, 4) {
                break;
            }
        }
        eval_chain(ctx, uid, &calls);
    }
}

/// message sets of hundreds and thousands of elements (a counter of the element number that is narrower than
/// the set is long shows only here); the last call asks for one attribute
fn run_c14_long(ctx: &mut Ctx, rng: &mut Rng, thorough: bool, shard: usize, shards: usize) {
    let mut lens: Vec<usize> = vec![127, 128, 129, 254, 255, 256, 257, 258, 300, 511, 512, 513, 1000, 1025];
    if thorough {
        lens.extend([4096, 32767, 32768, 32769, 65535, 65536, 65537, 70000]);
    }
    for (i, n) in lens.into_iter().enumerate() {
        if i % shards != shard {
            continue;
        }
        for variant in 0..3 {
            let uid = variant == 1;
            let mut calls = vec![];
            for j in 0..n {
                let c = match (variant, rng.below(6)) {
                    (2, 0) => Call::Range(num32(rng), num32(rng)),
                    (2, 1) if j + 1 == n => Call::RangeFrom(num32(rng)),
                    (2, _) => Call::Num(num32(rng)),
                    _ => Call::Num((j as u32) * 3 + 1),
                };
                calls.push(c);
            }
            calls.push(Call::Attr(rng.usize(11)));
            eval_chain(ctx, uid, &calls);
            ctx.log.count("c14:long-chain");
        }
    }
}

fn run_c14_rest(ctx: &mut Ctx, shard: usize) {
    // the other commands: CHECK, CLOSE (SELECT/EXAMINE/LOGIN/LIST are judged by C10's lexer as well)
    if shard == 0 {
        let c = CommandBuilder::check();
        if c.args != b"CHECK" {
            ctx.fail("simple", "CHECK".to_string(), "simple check");
        }
        ctx.queue("simple check".to_string(), format!("OK {}", hex(&c.args)));
        let c = CommandBuilder::close();
        if c.args != b"CLOSE" {
            ctx.fail("simple", "CLOSE".to_string(), "simple close");
        }
        ctx.queue("simple close".to_string(), format!("OK {}", hex(&c.args)));
        for (name, ex, cs) in [("select", false, false), ("examine", true, false), ("select_cs", false, true), ("examine_cs", true, true)] {
            for mb in ["INBOX", "a b", "x\"y", "ü"] {
                let cmd: Command = match (ex, cs) {
                    (false, false) => CommandBuilder::select(mb).into(),
                    (true, false) => CommandBuilder::examine(mb).into(),
                    (false, true) => CommandBuilder::select(mb).cond_store().into(),
                    (true, true) => CommandBuilder::examine(mb).cond_store().into(),
                };
                ctx.queue(format!("text {} {}", name, harg(mb.as_bytes())), format!("OK {}", hex(&cmd.args)));
            }
        }
    }
}

fn rule_of(prop: &str) -> &'static str {
    match prop {
        "C10" => "every ASCII string up to length 2 (quick) / 3 (thorough) in each text slot of login, list, select, examine (with and without cond_store) - exhaustive - plus random Unicode strings up to 1 KiB biased towards quote, backslash, CR, LF; non-trivial = distinct op whose argument contains a quote, backslash, CR or LF",
        "C14" => "all well-typed FETCH / UID FETCH chains up to 4 (quick) / 5 (thorough) calls over a per-state alphabet (exhaustive), random chains up to 9 calls with boundary and random numbers, CHECK, CLOSE, SELECT/EXAMINE with and without cond_store; non-trivial = distinct convertible chain",
        _ => "",
    }
}

fn main() {
    std::panic::set_hook(Box::new(|info| {
        let msg = info.to_string();
        LAST_PANIC.with(|m| *m.borrow_mut() = msg);
    }));
    let args = Args::from_env();
    let prop = args.get_or("prop", "C10");
    let seed = args.num("seed", 1);
    let tier = args.get_or("tier", "quick");
    let thorough = tier == "thorough";
    let model = args.get_or("model", "/verif/lean/.lake/build/bin/imapmodel");
    let out = args.get_or("out", "/dev/stdout");
    let shards = args.num("shards", 8) as usize;
    if let Some(f) = args.get("replay") {
        // replay: re-run the ops of the file on both sides
        let mut ctx = Ctx::new(&model);
        let text = std::fs::read_to_string(f).expect("replay file");
        let mut bad = 0;
        for line in text.lines() {
            if line.starts_with('#') || line.trim().is_empty() {
                continue;
            }
            let toks: Vec<&str> = line.split_whitespace().collect();
            match toks[0] {
                "text" => {
                    let c = TEXT_CMDS.iter().copied().find(|c| text_name(*c) == toks[1]).unwrap();
                    let un = |h: &str| String::from_utf8(if h == "-" { vec![] } else { vh_proto::prng::unhex(h) }).unwrap();
                    let a = un(toks[2]);
                    let b = if toks.len() > 3 { un(toks[3]) } else { "x".to_string() };
                    // the recorded case may depend on where the text lay in memory: replay it at all 8 offsets
                    for _ in 0..8 {
                        eval_text(&mut ctx, c, &a, &b);
                    }
                    println!("{} -> {}", line, run_text(c, &a, &b));
                }
                "fetch" => {
                    let uid = toks[1] == "1";
                    let mut calls = vec![];
                    for t in &toks[2..] {
                        let p: Vec<&str> = t.split(':').collect();
                        calls.push(match p[0] {
                            "n" => Call::Num(p[1].parse().unwrap()),
                            "r" => Call::Range(p[1].parse().unwrap(), p[2].parse().unwrap()),
                            "f" => Call::RangeFrom(p[1].parse().unwrap()),
                            "a" => Call::Attr(ATTR_NAMES.iter().position(|x| *x == p[1]).unwrap()),
                            "m" => Call::Macro(MACRO_NAMES.iter().position(|x| *x == p[1]).unwrap()),
                            _ => Call::ChangedSince(p[1].parse().unwrap()),
                        });
                    }
                    eval_chain(&mut ctx, uid, &calls);
                    println!("{}", line);
                }
                _ => {}
            }
        }
        ctx.flush();
        for d in &ctx.log.disagreements {
            println!("DISAGREE op={} impl={} model={}", d.op, d.imp, d.model);
            bad += 1;
        }
        for f in &ctx.log.oracle_failures {
            println!("ORACLE-FAIL {}: {}", f.class, f.what);
            bad += 1;
        }
        std::process::exit(if bad > 0 { 1 } else { 0 });
    }

    let total = Mutex::new(Log::default());
    std::thread::scope(|s| {
        for shard in 0..shards {
            let total = &total;
            let prop = prop.clone();
            let model = model.clone();
            s.spawn(move || {
                let mut ctx = Ctx::new(&model);
                let mut rng = Rng::new(seed.wrapping_mul(1000003).wrapping_add(shard as u64));
                match prop.as_str() {
                    "C10" => run_c10(&mut ctx, &mut rng, thorough, shard, shards),
                    "C14" => {
                        run_c14(&mut ctx, &mut rng, thorough, shard, shards);
                        run_c14_long(&mut ctx, &mut rng, thorough, shard, shards);
                    }
                    _ => {}
                }
                // directed passes: one per constant of /repo's sources that the baseline does not have
                for (fo, _name) in vh_proto::srcdict::foci() {
                    vh_proto::srcdict::with_focus(fo, || match prop.as_str() {
                        "C10" => run_c10_random(&mut ctx, &mut rng, thorough, shards),
                        "C14" => run_c14_random(&mut ctx, &mut rng, thorough, shards),
                        _ => {}
                    });
                    ctx.log.count("source-constant-pass");
                }
                ctx.flush();
                total.lock().unwrap().merge(ctx.log);
            });
        }
    });
    let mut log = total.into_inner().unwrap();
    match prop.as_str() {
        "C10" => {
            log.exhaustive.push(format!("all ASCII strings up to length {} in every text slot", if thorough { 3 } else { 2 }));
            log.sample(format!("login(\"a\\\"b\", \"p\\\\\") -> {}", run_text(TextCmd::Login, "a\"b", "p\\")));
            log.sample(format!("select(\"x\\r\\ny\") -> {}", run_text(TextCmd::Select, "x\r\ny", "")));
        }
        _ => {
            log.exhaustive.push(format!("all well-typed FETCH chains up to {} calls over the per-state alphabet", if thorough { 5 } else { 4 }));
            let c: Command = CommandBuilder::uid_fetch().num(1).range(2..=u32::MAX).attr(Attribute::Envelope).attr(Attribute::Uid).changed_since(u64::MAX).into();
            log.sample(format!("uid_fetch().num(1).range(2..=MAX).attr(Envelope).attr(Uid).changed_since(MAX) -> {}", show_bytes(&c.args)));
        }
    }
    std::fs::write(&out, log.to_json(&prop, seed, &tier, rule_of(&prop))).expect("write out");
    println!(
        "prop={} evaluations={} compared={} distinct_nontrivial={} disagreements={} oracle_failures={}",
        prop, log.evaluations, log.compared, log.nontrivial.len(), log.n_disagreements, log.n_oracle_failures
    );
}
