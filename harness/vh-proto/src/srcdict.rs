//! Source-derived boundary classes (written by /verif/srcdict.py, read from env VERIF_SRCDICT).
//!
//! Every integer constant c of /repo's current sources is offered to the generators as a length, count,
//! value, digit count, nesting depth or chunk size (c-1, c, c+1), every string constant as content.  A
//! constant that the committed baseline does not have is `new`; each new constant gets a directed pass
//! (`with_focus`) in which the choice points return it far more often.  The dictionary only adds inputs.

use std::cell::Cell;
use std::sync::OnceLock;

use crate::prng::Rng;

pub struct SrcDict {
    pub ints: Vec<(u64, bool)>,
    pub strs: Vec<(Vec<u8>, bool)>,
}

static DICT: OnceLock<SrcDict> = OnceLock::new();

pub fn dict() -> &'static SrcDict {
    DICT.get_or_init(|| {
        let mut d = SrcDict { ints: Vec::new(), strs: Vec::new() };
        let path = match std::env::var("VERIF_SRCDICT") {
            Ok(p) => p,
            Err(_) => return d,
        };
        let text = match std::fs::read_to_string(&path) {
            Ok(t) => t,
            Err(_) => return d,
        };
        for line in text.lines() {
            let mut it = line.split_whitespace();
            match (it.next(), it.next(), it.next()) {
                (Some("int"), Some(v), Some(n)) => {
                    if let Ok(v) = v.parse::<u128>() {
                        if v <= u64::MAX as u128 {
                            d.ints.push((v as u64, n == "new"));
                        } else if v == (u64::MAX as u128) + 1 {
                            d.ints.push((u64::MAX, n == "new"));
                        }
                    }
                }
                (Some("bytes"), Some(h), Some(n)) => {
                    let b = crate::prng::unhex(h);
                    if !b.is_empty() && b.len() <= 4096 {
                        d.strs.push((b, n == "new"));
                    }
                }
                _ => {}
            }
        }
        d
    })
}

#[derive(Clone, Copy, Debug, PartialEq)]
pub enum Focus {
    None,
    Int(u64),
    Str(usize),
}

thread_local! {
    static FOCUS: Cell<Focus> = const { Cell::new(Focus::None) };
}

pub fn focus() -> Focus {
    FOCUS.with(|f| f.get())
}

/// run `f` with one constant in focus (restored afterwards, also on unwind)
pub fn with_focus<T>(fo: Focus, f: impl FnOnce() -> T) -> T {
    struct Reset(Focus);
    impl Drop for Reset {
        fn drop(&mut self) {
            FOCUS.with(|f| f.set(self.0));
        }
    }
    let _r = Reset(focus());
    FOCUS.with(|f| f.set(fo));
    f()
}

/// the directed passes a check should make: one per new constant
pub fn new_foci() -> Vec<(Focus, String)> {
    let d = dict();
    let mut v = Vec::new();
    for (i, new) in d.ints.iter() {
        if *new {
            v.push((Focus::Int(*i), format!("int {}", i)));
        }
    }
    for (k, (s, new)) in d.strs.iter().enumerate() {
        if *new {
            v.push((Focus::Str(k), format!("bytes {}", crate::prng::hex(s))));
        }
    }
    v
}

fn around(rng: &mut Rng, c: u64) -> u64 {
    match rng.below(4) {
        0 => c.saturating_sub(1),
        1 => c.saturating_add(1),
        _ => c,
    }
}

/// A source-derived integer (c-1, c or c+1) no larger than `cap`, or None (most of the time, unless a
/// constant is in focus).  `den` = one in `den` calls consults the dictionary when nothing is in focus.
pub fn int_le(rng: &mut Rng, cap: u64, den: u64) -> Option<u64> {
    match focus() {
        Focus::Int(c) => {
            if rng.chance(1, 3) {
                let v = around(rng, c);
                if v <= cap {
                    return Some(v);
                }
                // a constant beyond the cap: its low part may be what matters (a width: 2^16 -> length 2^16 is
                // too much for a list, but c mod 2^k is not interesting either) - give up
                return None;
            }
            None
        }
        Focus::Str(k) => {
            // a string in focus: its length is a boundary too
            if rng.chance(1, 12) {
                let v = around(rng, dict().strs[k].0.len() as u64);
                if v <= cap {
                    return Some(v);
                }
            }
            None
        }
        Focus::None => {
            let d = dict();
            if d.ints.is_empty() || !rng.chance(1, den) {
                return None;
            }
            let (c, _) = d.ints[rng.usize(d.ints.len())];
            let v = around(rng, c);
            if v <= cap {
                Some(v)
            } else {
                None
            }
        }
    }
}

/// A source-derived byte string, or None (most of the time, unless one is in focus).
pub fn bytes(rng: &mut Rng, den: u64) -> Option<Vec<u8>> {
    let d = dict();
    match focus() {
        Focus::Str(k) => {
            if rng.chance(1, 3) {
                return Some(d.strs[k].0.clone());
            }
            None
        }
        Focus::Int(c) => {
            // an integer in focus may be a byte or a code point
            if rng.chance(1, 8) {
                if c < 256 {
                    return Some(vec![c as u8]);
                }
                if let Some(ch) = char::from_u32(c as u32).filter(|_| c <= 0x10ffff) {
                    return Some(ch.to_string().into_bytes());
                }
            }
            None
        }
        Focus::None => {
            if d.strs.is_empty() || !rng.chance(1, den) {
                return None;
            }
            Some(d.strs[rng.usize(d.strs.len())].0.clone())
        }
    }
}

/// Content built around a source-derived string: alone, leading, trailing, embedded, repeated.
pub fn content(rng: &mut Rng, den: u64, utf8: bool) -> Option<Vec<u8>> {
    let s = bytes(rng, den)?;
    let s: Vec<u8> = s.into_iter().filter(|b| *b != 0).collect();
    if s.is_empty() {
        return None;
    }
    let fill = |rng: &mut Rng, n: u64| -> Vec<u8> { (0..n).map(|_| b"abcxyz019"[rng.usize(9)]).collect() };
    let v = match rng.below(6) {
        0 => s,
        1 => {
            let n = rng.range(1, 5);
            [s, fill(rng, n)].concat()
        }
        2 => {
            let n = rng.range(1, 5);
            [fill(rng, n), s].concat()
        }
        3 => {
            let (a, b) = (rng.range(1, 4), rng.range(1, 4));
            [fill(rng, a), s, fill(rng, b)].concat()
        }
        4 => [s.clone(), s].concat(),
        _ => {
            // the string cut short or with one byte changed: the neighbours of a special value
            let mut t = s.clone();
            if t.len() > 1 && rng.bool() {
                t.pop();
            } else {
                let k = rng.usize(t.len());
                t[k] = t[k].wrapping_add(1).max(1);
            }
            t
        }
    };
    if utf8 && std::str::from_utf8(&v).is_err() {
        return None;
    }
    Some(v)
}

/// budget of a directed pass: a sixth of the ordinary budget of the same family (at least 60 cases)
pub fn scaled(n: usize) -> usize {
    if focus() == Focus::None {
        n
    } else {
        std::cmp::max(n / 6, std::cmp::min(n, 60))
    }
}

/// at most this many constants get a directed pass of their own in one run
pub const MAX_FOCI: usize = 12;

pub fn foci() -> Vec<(Focus, String)> {
    new_foci().into_iter().take(MAX_FOCI).collect()
}

thread_local! {
    static LARGE_LEFT: Cell<u32> = const { Cell::new(2) };
    static BYTES_LEFT: Cell<usize> = const { Cell::new(300_000) };
}

/// called at the start of every generated case: allows two big counts and 300 000 bytes of long strings again
/// (a case of several megabytes costs the model minutes: its parser is quadratic in places)
pub fn reset_large() {
    LARGE_LEFT.with(|l| l.set(2));
    BYTES_LEFT.with(|l| l.set(300_000));
}

pub fn take_large() -> bool {
    LARGE_LEFT.with(|l| {
        if l.get() > 0 {
            l.set(l.get() - 1);
            true
        } else {
            false
        }
    })
}

/// may a string of n bytes (n > 256) still be generated in this case?
pub fn take_bytes(n: usize) -> bool {
    if n <= 256 {
        return true;
    }
    BYTES_LEFT.with(|l| {
        if l.get() >= n {
            l.set(l.get() - n);
            true
        } else {
            false
        }
    })
}
