// own2lean: translate the `into_owned` functions of imap-proto/src/types.rs and types/acls.rs into Lean
// definitions over the model's types, each parametrised by `own` (standing for every conversion it calls:
// `to_owned_cow`, another type's `into_owned`, a helper that is itself translated), together with the
// theorem "if the conversions it calls return their argument, so does this function".
//
// usage: vh-translate --own <types.rs> <acls.rs> <config> <out-Owned.lean> <out-report.json>

struct OwnTr<'a> {
    cfg: &'a Config,
    variants: &'a HashMap<String, Vec<String>>, // "Type::Variant" -> declared field names (struct variants)
    helpers: &'a HashSet<String>,               // free functions that are translated themselves
    locals: Vec<HashSet<String>>,
}

impl<'a> OwnTr<'a> {
    fn field(&self, f: &str) -> String {
        self.cfg.fieldmap.get(f).cloned().unwrap_or_else(|| camel(f))
    }
    fn local(n: &str) -> String {
        if n == "_" {
            "_".into()
        } else if n == "self" {
            "self".into()
        } else {
            format!("v_{n}")
        }
    }
    fn is_local(&self, n: &str) -> bool {
        n == "self" || self.locals.iter().any(|s| s.contains(n))
    }
    fn ctor(&self, segs: &[String]) -> R<String> {
        if segs.len() != 2 {
            return Err(format!("constructor path {}", segs.join("::")));
        }
        let full = format!("{}::{}", segs[0], segs[1]);
        if let Some(t) = self.cfg.ctormap.get(&full) {
            return Ok(t.clone());
        }
        Ok(format!("{}.{}", segs[0], lower_first(&segs[1])))
    }
    /// a function used as a value: conversion, closure, constructor
    fn func(&mut self, e: &Expr) -> R<String> {
        match e {
            Expr::Paren(p) => self.func(&p.expr),
            Expr::Path(p) => {
                let segs: Vec<String> = p.path.segments.iter().map(|s| s.ident.to_string()).collect();
                let last = segs.last().unwrap();
                if last == "into_owned" || last == "to_owned_cow" || (segs.len() == 1 && self.helpers.contains(last)) {
                    return Ok("(fun z => own z)".into());
                }
                if segs.len() == 2 && segs[0] == "Box" && segs[1] == "new" {
                    return Ok("(fun z => z)".into());
                }
                if segs.len() == 1 && segs[0] == "Some" {
                    return Ok("some".into());
                }
                Err(format!("function {} is not a known conversion", segs.join("::")))
            }
            Expr::Closure(c) => {
                if c.inputs.len() != 1 {
                    return Err("closure arity".into());
                }
                let mut binds = HashSet::new();
                let pat = self.pat(&c.inputs[0], &mut binds)?;
                self.locals.push(binds);
                let b = self.expr(&c.body);
                self.locals.pop();
                let b = b?;
                if pat.starts_with('(') {
                    Ok(format!("(fun x => match x with | {pat} => {b})"))
                } else {
                    Ok(format!("(fun {pat} => {b})"))
                }
            }
            _ => Err(format!("function value {}", e.to_token_stream())),
        }
    }
    fn pat(&self, p: &Pat, binds: &mut HashSet<String>) -> R<String> {
        match p {
            Pat::Wild(_) => Ok("_".into()),
            Pat::Ident(i) => {
                if i.subpat.is_some() {
                    return Err("@ pattern".into());
                }
                let n = i.ident.to_string();
                binds.insert(n.clone());
                Ok(Self::local(&n))
            }
            Pat::Tuple(t) => {
                let parts: R<Vec<String>> = t.elems.iter().map(|e| self.pat(e, binds)).collect();
                Ok(format!("({})", parts?.join(", ")))
            }
            Pat::Path(p) => {
                let segs: Vec<String> = p.path.segments.iter().map(|s| s.ident.to_string()).collect();
                self.ctor(&segs)
            }
            Pat::TupleStruct(ts) => {
                let segs: Vec<String> = ts.path.segments.iter().map(|s| s.ident.to_string()).collect();
                let head = self.ctor(&segs)?;
                let parts: R<Vec<String>> = ts.elems.iter().map(|e| self.pat(e, binds)).collect();
                Ok(format!("{head} {}", parts?.join(" ")))
            }
            Pat::Struct(st) => {
                if st.rest.is_some() {
                    return Err("`..` in a pattern (a field is dropped)".into());
                }
                let segs: Vec<String> = st.path.segments.iter().map(|s| s.ident.to_string()).collect();
                let head = self.ctor(&segs)?;
                let decl = self.variants.get(&segs.join("::")).ok_or(format!("unknown struct variant {}", segs.join("::")))?;
                let mut by_name: HashMap<String, String> = HashMap::new();
                for f in &st.fields {
                    let name = match &f.member {
                        syn::Member::Named(n) => n.to_string(),
                        _ => return Err("tuple field in struct pattern".into()),
                    };
                    by_name.insert(name, self.pat(&f.pat, binds)?);
                }
                let mut parts = vec![];
                for d in decl {
                    parts.push(by_name.remove(d).ok_or(format!("pattern of {} does not bind field {d}", segs.join("::")))?);
                }
                if !by_name.is_empty() {
                    return Err("pattern binds an undeclared field".into());
                }
                Ok(format!("{head} {}", parts.join(" ")))
            }
            _ => Err(format!("pattern {}", p.to_token_stream())),
        }
    }
    fn expr(&mut self, e: &Expr) -> R<String> {
        match e {
            Expr::Paren(p) => Ok(format!("({})", self.expr(&p.expr)?)),
            Expr::Group(g) => self.expr(&g.expr),
            Expr::Unary(u) if matches!(u.op, syn::UnOp::Deref(_)) => self.expr(&u.expr),
            Expr::Block(b) if b.block.stmts.len() == 1 => match &b.block.stmts[0] {
                Stmt::Expr(e, None) => self.expr(e),
                _ => Err("block".into()),
            },
            Expr::Path(p) => {
                let segs: Vec<String> = p.path.segments.iter().map(|s| s.ident.to_string()).collect();
                if segs.len() == 1 {
                    if self.is_local(&segs[0]) {
                        return Ok(Self::local(&segs[0]));
                    }
                    if segs[0] == "None" {
                        return Ok("none".into());
                    }
                    return Err(format!("unknown name {}", segs[0]));
                }
                self.ctor(&segs)
            }
            Expr::Field(f) => {
                let base = self.expr(&f.base)?;
                match &f.member {
                    syn::Member::Named(n) => Ok(format!("{base}.{}", self.field(&n.to_string()))),
                    _ => Err("tuple projection".into()),
                }
            }
            Expr::Tuple(t) => {
                let parts: R<Vec<String>> = t.elems.iter().map(|x| self.expr(x)).collect();
                Ok(format!("({})", parts?.join(", ")))
            }
            Expr::Call(c) => {
                let segs: Vec<String> = match &*c.func {
                    Expr::Path(p) => p.path.segments.iter().map(|s| s.ident.to_string()).collect(),
                    _ => return Err("call head".into()),
                };
                let args: Vec<&Expr> = c.args.iter().collect();
                let last = segs.last().unwrap().clone();
                if args.len() == 1 && (last == "to_owned_cow" || last == "into_owned" || (segs.len() == 1 && self.helpers.contains(&last))) {
                    return Ok(format!("(own {})", self.expr(args[0])?));
                }
                if segs.len() == 2 && segs[0] == "Box" && segs[1] == "new" && args.len() == 1 {
                    return self.expr(args[0]);
                }
                if segs.len() == 1 && segs[0] == "Some" && args.len() == 1 {
                    return Ok(format!("(some {})", self.expr(args[0])?));
                }
                if segs.len() == 2 && segs[0].chars().next().map_or(false, |c| c.is_uppercase()) {
                    let head = self.ctor(&segs)?;
                    let parts: R<Vec<String>> = args.iter().map(|x| self.expr(x)).collect();
                    return Ok(format!("({head} {})", parts?.join(" ")));
                }
                Err(format!("call of {} (not a conversion, not a constructor)", segs.join("::")))
            }
            Expr::Struct(s) => {
                if s.rest.is_some() {
                    return Err("struct update syntax".into());
                }
                let segs: Vec<String> = s.path.segments.iter().map(|x| x.ident.to_string()).collect();
                let mut fields: Vec<(String, String)> = vec![];
                for f in &s.fields {
                    let name = match &f.member {
                        syn::Member::Named(n) => n.to_string(),
                        _ => return Err("tuple struct literal".into()),
                    };
                    fields.push((name, self.expr(&f.expr)?));
                }
                if segs.len() == 1 {
                    let tyn = self.cfg.typemap.get(&segs[0]).cloned().unwrap_or(segs[0].clone());
                    let body: Vec<String> = fields.iter().map(|(n, v)| format!("{} := {v}", self.field(n))).collect();
                    return Ok(format!("({{ {} }} : {tyn})", body.join(", ")));
                }
                let head = self.ctor(&segs)?;
                let decl = self.variants.get(&segs.join("::")).ok_or(format!("unknown struct variant {}", segs.join("::")))?;
                let mut by_name: HashMap<String, String> = fields.into_iter().collect();
                let mut parts = vec![];
                for d in decl {
                    parts.push(by_name.remove(d).ok_or(format!("{} built without field {d}", segs.join("::")))?);
                }
                Ok(format!("({head} {})", parts.join(" ")))
            }
            Expr::MethodCall(m) => {
                let name = m.method.to_string();
                let args: Vec<&Expr> = m.args.iter().collect();
                match (name.as_str(), args.len()) {
                    ("into_owned", 0) => Ok(format!("(own {})", self.expr(&m.receiver)?)),
                    ("collect", 0) => {
                        // recv must be X.into_iter().map(F)
                        if let Expr::MethodCall(mm) = &*m.receiver {
                            if mm.method == "map" && mm.args.len() == 1 {
                                if let Expr::MethodCall(it) = &*mm.receiver {
                                    if it.method == "into_iter" && it.args.is_empty() {
                                        let base = self.expr(&it.receiver)?;
                                        let f = self.func(&mm.args[0])?;
                                        return Ok(format!("(List.map {f} {base})"));
                                    }
                                }
                            }
                        }
                        Err(format!("iterator chain {}", m.to_token_stream()))
                    }
                    ("map", 1) => {
                        if matches!(&*m.receiver, Expr::MethodCall(it) if it.method == "into_iter" || it.method == "iter") {
                            return Err("iterator map without collect".into());
                        }
                        let base = self.expr(&m.receiver)?;
                        let f = self.func(args[0])?;
                        Ok(format!("(Option.map {f} {base})"))
                    }
                    _ => Err(format!("method .{name}/{} (not part of a field-by-field conversion)", args.len())),
                }
            }
            Expr::Match(m) => {
                let scrut = self.expr(&m.expr)?;
                let mut s = format!("(match {scrut} with");
                for arm in &m.arms {
                    if arm.guard.is_some() {
                        return Err("match guard".into());
                    }
                    let mut binds = HashSet::new();
                    let p = self.pat(&arm.pat, &mut binds)?;
                    self.locals.push(binds);
                    let b = self.expr(&arm.body);
                    self.locals.pop();
                    let _ = write!(s, "\n    | {p} => {}", b?);
                }
                s.push(')');
                Ok(s)
            }
            _ => Err(format!("expression {}", e.to_token_stream())),
        }
    }
}

fn own_main(types_rs: &str, acls_rs: &str, cfgpath: &str, out_lean: &str, out_report: &str) {
    let cfg = load_config(cfgpath);
    let mut variants: HashMap<String, Vec<String>> = HashMap::new();
    let mut items: Vec<(String, syn::Block, Option<String>)> = vec![]; // (name, body, self type)
    let mut helpers: HashSet<String> = HashSet::new();
    let mut extra_fp: Vec<(String, String)> = vec![];
    let mut parse_errors = vec![];
    for path in [types_rs, acls_rs] {
        let text = std::fs::read_to_string(path).unwrap_or_default();
        let file = match syn::parse_file(&text) {
            Ok(f) => f,
            Err(e) => {
                parse_errors.push(format!("{path}: {e}"));
                continue;
            }
        };
        for it in &file.items {
            match it {
                Item::Enum(en) => {
                    for v in &en.variants {
                        if let syn::Fields::Named(n) = &v.fields {
                            variants.insert(
                                format!("{}::{}", en.ident, v.ident),
                                n.named.iter().map(|f| f.ident.as_ref().unwrap().to_string()).collect(),
                            );
                        }
                    }
                }
                Item::Impl(im) if im.trait_.is_none() => {
                    let ty = im.self_ty.to_token_stream().to_string();
                    let ty = ty.split('<').next().unwrap().trim().to_string();
                    for ii in &im.items {
                        if let syn::ImplItem::Fn(m) = ii {
                            if m.sig.ident == "into_owned" {
                                items.push((ty.clone(), m.block.clone(), Some(ty.clone())));
                            }
                        }
                    }
                }
                Item::Fn(f) if !is_cfg_test(&f.attrs) => {
                    let n = f.sig.ident.to_string();
                    if n == "to_owned_cow" {
                        let mut f2 = f.clone();
                        f2.attrs.clear();
                        extra_fp.push(("types::to_owned_cow".into(), fnv(&f2.to_token_stream().to_string())));
                    } else if n.ends_with("_owned") {
                        helpers.insert(n.clone());
                        items.push((n, (*f.block).clone(), None));
                    }
                }
                _ => {}
            }
        }
    }
    let mut lean = String::from("/- GENERATED by harness/vh-translate --own from /repo/imap-proto/src/types.rs and types/acls.rs - do not edit.\n   One definition per `into_owned` (parametrised by `own`, which stands for every conversion it calls) and the\n   theorem: if the conversions it calls return their argument, so does this function. -/\nimport ImapVerif.Types\nimport ImapVerif.Grammar.Body\nimport ImapVerif.Gen.OwnTactic\nset_option linter.unusedVariables false\n\nnamespace Gen.Own\n\n");
    let mut rep: Vec<(String, String, String)> = vec![];
    let mut broken: Vec<String> = vec![];
    for (name, block, selfty) in &items {
        let mut tr = OwnTr { cfg: &cfg, variants: &variants, helpers: &helpers, locals: vec![] };
        let lty = match selfty {
            Some(t) => cfg.typemap.get(t).cloned().unwrap_or(t.clone()),
            None => cfg.typemap.get(name).cloned().unwrap_or("_".into()),
        };
        let res = (|| -> R<String> {
            let param = if selfty.is_some() { "self".to_string() } else { "v".to_string() };
            let mut scope = HashSet::new();
            scope.insert(param.clone());
            tr.locals.push(scope);
            if block.stmts.len() != 1 {
                return Err("body is not a single expression".into());
            }
            let e = match &block.stmts[0] {
                Stmt::Expr(e, None) => e,
                _ => return Err("body is not an expression".into()),
            };
            let body = tr.expr(e)?;
            Ok(body)
        })();
        let key = format!("types::{name}::into_owned");
        match res {
            Ok(body) => {
                let p = if selfty.is_some() { "self" } else { "v_v" };
                let _ = write!(
                    lean,
                    "-- {key}\ndef {name}_into_owned (own : ∀ {{α : Type}}, α → α) ({p} : {lty}) : {lty} :=\n  {body}\n\ntheorem {name}_into_owned_id (own : ∀ {{α : Type}}, α → α) (h : ∀ {{α : Type}} (x : α), own x = x) ({p} : {lty}) :\n    {name}_into_owned own {p} = {p} := by\n  own_id {name}_into_owned, {p}, h\n\n"
                );
                rep.push((key, "translated".into(), String::new()));
            }
            Err(e) => {
                broken.push(format!("{key}: not a field-by-field conversion the translator recognises: {e}"));
                rep.push((key, "untranslatable".into(), e));
            }
        }
    }
    lean.push_str("end Gen.Own\n");
    std::fs::write(out_lean, lean).unwrap();
    for (k, fp) in &extra_fp {
        match cfg.opaque_fp.get(k) {
            Some(r) if r == fp => rep.push((k.clone(), "opaque-unchanged".into(), fp.clone())),
            Some(r) => {
                broken.push(format!("{k}: changed (fingerprint {fp} recorded {r})"));
                rep.push((k.clone(), "opaque-CHANGED".into(), fp.clone()));
            }
            None => {
                broken.push(format!("{k}: not recorded (fingerprint {fp})"));
                rep.push((k.clone(), "untranslatable".into(), fp.clone()));
            }
        }
    }
    if extra_fp.is_empty() {
        broken.push("types::to_owned_cow: not found".into());
    }
    let mut r = String::from("{\n \"functions\": [\n");
    r.push_str(
        &rep.iter()
            .map(|(k, s, d)| format!("  {{\"fn\": {}, \"status\": {}, \"detail\": {}}}", json_str(k), json_str(s), json_str(d)))
            .collect::<Vec<_>>()
            .join(",\n"),
    );
    r.push_str("\n ],\n \"broken\": [");
    r.push_str(&broken.iter().map(|s| json_str(s)).collect::<Vec<_>>().join(", "));
    r.push_str("],\n \"parse_errors\": [");
    r.push_str(&parse_errors.iter().map(|s| json_str(s)).collect::<Vec<_>>().join(", "));
    r.push_str("]\n}\n");
    std::fs::write(out_report, r).unwrap();
    eprintln!("own2lean: {} conversions, {} translated, {} broken", rep.len(), rep.iter().filter(|x| x.1 == "translated").count(), broken.len());
}
