//! rs2lean: translate the nom-combinator code of /repo/imap-proto/src/parser into Lean definitions
//! `Gen.<module>.<fn>` over the model's combinator library, and emit one tie theorem per function
//! (`Gen.<module>.<fn> = Grammar.<counterpart>`), so that Lean - not a test run - decides whether the
//! hand-written model still says what the source says.
//!
//! usage: rs2lean <parser-src-dir> <config> <out-Parser.lean> <out-Tie.lean> <out-report.json>
//!
//! What is translated: functions whose body is nom combinator code (an expression applied to the input,
//! or a sequence of `let (i, pat) = P(i)?;` steps ending in `Ok((i, v))`), byte-class predicates, simple
//! value functions, closures built from constructors / struct literals / `if` / `Option::map` / tuple
//! projections.  What is not (hand-written loops, `match` on `Err`, std conversions, slicing, iterator
//! chains) is *opaque*: the function is bound to its hand-written counterpart named in the config and a
//! fingerprint of its token stream is compared with the recorded one.  Anything the translator does not
//! recognise makes the function opaque with the reason in the report; it never guesses.

use quote::ToTokens;
use std::collections::{BTreeMap, HashMap, HashSet};
use std::fmt::Write as _;
use syn::{Expr, FnArg, Item, Pat, ReturnType, Stmt, Type, UseTree};

type R<T> = Result<T, String>;

struct FnInfo {
    module: String,
    name: String,
    item: syn::ItemFn,
    order: usize,
}

#[derive(Default)]
struct Uses {
    names: HashMap<String, Vec<String>>,
    globs: Vec<Vec<String>>,
    child_mods: HashSet<String>,
}

#[derive(Default)]
struct Config {
    fnmap: HashMap<String, String>,            // "mod::fn" -> Lean counterpart
    nocounterpart: HashSet<String>,            // translated, but inlined in the hand model
    closures: HashMap<String, (String, String, String)>, // "mod::fn#k" -> (kind, lean term, fingerprint)
    opaque_fp: HashMap<String, String>,        // "mod::fn" -> fingerprint of an opaque function
    rettype: HashMap<String, String>,          // "mod::fn" -> Lean type override of the parsed value
    recroot: HashMap<String, (String, String, String)>, // "mod::fn" -> (self name, self type, fix term)
    recmember: HashMap<String, String>,        // "mod::fn" -> root key
    tie_stmt: HashMap<String, String>,         // custom statement
    tie_proof: HashMap<String, String>,        // custom proof
    tie_extra: HashMap<String, Vec<String>>,   // extra simp lemmas / unfolds
    intomap: HashMap<String, String>,          // "mod::fn" -> what `.into()` / `From::from` means there
    fieldmap: HashMap<String, String>,
    ctormap: HashMap<String, String>,
    typemap: HashMap<String, String>,
    model_defs: HashSet<String>,
}

fn load_config(path: &str) -> Config {
    let mut c = Config::default();
    let text = std::fs::read_to_string(path).expect("config");
    let mut cur_key = String::new();
    let mut cur_kind = String::new();
    let mut buf = String::new();
    let mut flush = |c: &mut Config, kind: &str, key: &str, buf: &str| {
        if kind == "tie_stmt" {
            c.tie_stmt.insert(key.to_string(), buf.trim_end().to_string());
        } else if kind == "tie_proof" {
            c.tie_proof.insert(key.to_string(), buf.trim_end().to_string());
        }
    };
    for line in text.lines() {
        if !cur_kind.is_empty() {
            if line.trim() == "end" {
                flush(&mut c, &cur_kind, &cur_key, &buf);
                cur_kind.clear();
                buf.clear();
            } else {
                buf.push_str(line);
                buf.push('\n');
            }
            continue;
        }
        let l = line.trim();
        if l.is_empty() || l.starts_with('#') {
            continue;
        }
        let mut it = l.splitn(3, ' ');
        let kw = it.next().unwrap();
        let a = it.next().unwrap_or("").to_string();
        let b = it.next().unwrap_or("").to_string();
        match kw {
            "fnmap" => {
                c.fnmap.insert(a, b);
            }
            "inline" => {
                c.nocounterpart.insert(a);
            }
            "closure" => {
                // closure key kind fingerprint | lean term
                let mut p = b.splitn(3, ' ');
                let kind = p.next().unwrap_or("").to_string();
                let fp = p.next().unwrap_or("").to_string();
                let term = p.next().unwrap_or("").to_string();
                c.closures.insert(a, (kind, term, fp));
            }
            "opaque" => {
                c.opaque_fp.insert(a, b);
            }
            "rettype" => {
                c.rettype.insert(a, b);
            }
            "recroot" => {
                let mut p = b.splitn(3, '|');
                let s = p.next().unwrap_or("").trim().to_string();
                let t = p.next().unwrap_or("").trim().to_string();
                let f = p.next().unwrap_or("").trim().to_string();
                c.recroot.insert(a, (s, t, f));
            }
            "recmember" => {
                c.recmember.insert(a, b);
            }
            "tie_extra" => {
                c.tie_extra.entry(a).or_default().extend(b.split(' ').filter(|s| !s.is_empty()).map(|s| s.to_string()));
            }
            "into" => {
                c.intomap.insert(a, b);
            }
            "field" => {
                c.fieldmap.insert(a, b);
            }
            "ctor" => {
                c.ctormap.insert(a, b);
            }
            "type" => {
                c.typemap.insert(a, b);
            }
            "model_def" => {
                c.model_defs.insert(a);
            }
            "tie_stmt" | "tie_proof" => {
                cur_kind = kw.to_string();
                cur_key = a;
            }
            _ => panic!("config: unknown line {l}"),
        }
    }
    c
}

fn fnv(s: &str) -> String {
    let mut h: u64 = 0xcbf29ce484222325;
    for b in s.bytes() {
        h ^= b as u64;
        h = h.wrapping_mul(0x100000001b3);
    }
    format!("{h:016x}")
}

fn fingerprint_fn(item: &syn::ItemFn) -> String {
    let mut it = item.clone();
    it.attrs.clear();
    it.vis = syn::Visibility::Inherited;
    fnv(&it.to_token_stream().to_string())
}

fn camel(s: &str) -> String {
    let mut out = String::new();
    let mut up = false;
    for (k, ch) in s.chars().enumerate() {
        if ch == '_' && k > 0 {
            up = true;
        } else if up {
            out.extend(ch.to_uppercase());
            up = false;
        } else {
            out.push(ch);
        }
    }
    out
}

fn lower_first(s: &str) -> String {
    let mut c = s.chars();
    match c.next() {
        Some(f) => f.to_lowercase().collect::<String>() + c.as_str(),
        None => String::new(),
    }
}

const LEAN_KW: &[&str] = &[
    "section", "end", "from", "at", "in", "then", "else", "do", "namespace", "open", "variable", "instance",
    "structure", "class", "where", "with", "match", "fun", "let", "have", "show", "by", "mutual", "def",
    "theorem", "example", "if", "local", "type", "Type", "import", "export", "private", "protected",
];

fn lean_fn_name(module: &str, name: &str) -> String {
    let n = if LEAN_KW.contains(&name) { format!("«{name}»") } else { name.to_string() };
    format!("Gen.{module}.{n}")
}

struct Tr<'a> {
    fns: &'a BTreeMap<String, FnInfo>,
    uses: &'a HashMap<String, Uses>,
    consts: &'a HashMap<String, String>, // "mod::NAME" -> value text
    cfg: &'a Config,
    // per-function state
    module: String,
    fname: String,
    locals: Vec<HashSet<String>>,
    parser_aliases: HashMap<String, String>,
    closure_ix: usize,
    callees: Vec<String>,
    opaque_closures: Vec<String>,
    notes: Vec<String>,
    tuple_arity: HashMap<String, usize>,
}

enum Res {
    Fn(String),          // key "mod::fn"
    Nom(String),         // "nom::bytes::streaming::tag"
    Std(String),         // "std::str::from_utf8", prelude names
    Ty(Vec<String>),     // Type or Type::Variant
    Local(String),
    Const(String),
}

fn mod_abs(module: &str) -> Vec<String> {
    let mut v = vec!["crate".to_string(), "parser".to_string()];
    if module != "parser" {
        for p in module.split("__") {
            v.push(p.to_string());
        }
    }
    v
}

fn abs_to_mod(abs: &[String]) -> Option<String> {
    if abs.len() >= 2 && abs[0] == "crate" && abs[1] == "parser" {
        if abs.len() == 2 {
            Some("parser".into())
        } else {
            Some(abs[2..].join("__"))
        }
    } else {
        None
    }
}

impl<'a> Tr<'a> {
    fn key(&self) -> String {
        format!("{}::{}", self.module, self.fname)
    }
    fn is_local(&self, n: &str) -> bool {
        self.locals.iter().any(|s| s.contains(n))
    }
    fn local_name(n: &str) -> String {
        if n == "_" {
            "_".into()
        } else {
            format!("v_{n}")
        }
    }

    fn absolutize(&self, segs: &[String]) -> R<Vec<String>> {
        let u = &self.uses[&self.module];
        let cur = mod_abs(&self.module);
        let first = &segs[0];
        let mut out: Vec<String>;
        if first == "crate" || first == "nom" || first == "std" {
            out = segs.to_vec();
            return Ok(out);
        }
        if first == "self" {
            out = cur;
            out.extend_from_slice(&segs[1..]);
            return Ok(out);
        }
        if first == "super" {
            out = cur;
            out.pop();
            let mut k = 1;
            while k < segs.len() && segs[k] == "super" {
                out.pop();
                k += 1;
            }
            out.extend_from_slice(&segs[k..]);
            return Ok(out);
        }
        if u.child_mods.contains(first) {
            out = cur;
            out.extend_from_slice(segs);
            return Ok(out);
        }
        if let Some(p) = u.names.get(first) {
            out = if p[0] == "super" || p[0] == "self" { self.absolutize(p)? } else { p.clone() };
            out.extend_from_slice(&segs[1..]);
            return Ok(out);
        }
        Err(format!("cannot resolve path {}", segs.join("::")))
    }

    fn resolve(&self, path: &syn::Path) -> R<Res> {
        let segs: Vec<String> = path.segments.iter().map(|s| s.ident.to_string()).collect();
        if segs.len() == 1 {
            let n = &segs[0];
            if self.is_local(n) {
                return Ok(Res::Local(n.clone()));
            }
            if self.fns.contains_key(&format!("{}::{}", self.module, n)) {
                return Ok(Res::Fn(format!("{}::{}", self.module, n)));
            }
            if self.consts.contains_key(&format!("{}::{}", self.module, n)) {
                return Ok(Res::Const(format!("{}::{}", self.module, n)));
            }
            let u = &self.uses[&self.module];
            if let Some(p) = u.names.get(n) {
                let p = if p[0] == "super" || p[0] == "self" { self.absolutize(p)? } else { p.clone() };
                return self.classify(p);
            }
            for g in &u.globs {
                if let Some(m) = abs_to_mod(g) {
                    let k = format!("{m}::{n}");
                    if self.fns.contains_key(&k) {
                        return Ok(Res::Fn(k));
                    }
                    if self.consts.contains_key(&k) {
                        return Ok(Res::Const(k));
                    }
                }
            }
            match n.as_str() {
                "Some" | "None" | "Ok" | "Err" | "Box" | "Option" | "From" | "String" | "Vec" => return Ok(Res::Std(n.clone())),
                _ => {}
            }
            if n.chars().next().map_or(false, |c| c.is_uppercase()) {
                return Ok(Res::Ty(segs));
            }
            return Err(format!("unresolved name {n}"));
        }
        // multi-segment
        let first = &segs[0];
        if first.chars().next().map_or(false, |c| c.is_uppercase()) {
            // Type::Variant / Type::assoc ; resolve the type through `use` if it is a std type
            let u = &self.uses[&self.module];
            if let Some(p) = u.names.get(first) {
                if p[0] == "std" {
                    let mut q = p.clone();
                    q.extend_from_slice(&segs[1..]);
                    return Ok(Res::Std(q.join("::")));
                }
            }
            match first.as_str() {
                "Box" | "Option" | "From" | "String" | "Vec" => return Ok(Res::Std(segs.join("::"))),
                _ => {}
            }
            return Ok(Res::Ty(segs));
        }
        let abs = self.absolutize(&segs)?;
        self.classify(abs)
    }

    fn classify(&self, abs: Vec<String>) -> R<Res> {
        if abs[0] == "nom" {
            return Ok(Res::Nom(abs.join("::")));
        }
        if abs[0] == "std" || abs[0] == "core" {
            return Ok(Res::Std(abs.join("::")));
        }
        if abs[0] == "crate" {
            let last = abs.last().unwrap();
            if last.chars().next().map_or(false, |c| c.is_uppercase()) && !last.chars().all(|c| c.is_uppercase() || c == '_') {
                return Ok(Res::Ty(vec![last.clone()]));
            }
            if let Some(m) = abs_to_mod(&abs[..abs.len() - 1]) {
                let k = format!("{m}::{last}");
                if self.fns.contains_key(&k) {
                    return Ok(Res::Fn(k));
                }
                if self.consts.contains_key(&k) {
                    return Ok(Res::Const(k));
                }
            }
            // a module path
            return Err(format!("path {} names no function", abs.join("::")));
        }
        Err(format!("unknown root {}", abs.join("::")))
    }

    // ---------- types ----------
    fn ty(&self, t: &Type) -> R<String> {
        match t {
            Type::Reference(r) => self.ty(&r.elem),
            Type::Paren(p) => self.ty(&p.elem),
            Type::Slice(s) => {
                let e = self.ty(&s.elem)?;
                if e == "UInt8" {
                    Ok("Bytes".into())
                } else {
                    Ok(format!("(List {e})"))
                }
            }
            Type::Tuple(t) => {
                if t.elems.is_empty() {
                    return Ok("Unit".into());
                }
                let parts: R<Vec<String>> = t.elems.iter().map(|e| self.ty(e)).collect();
                Ok(format!("({})", parts?.join(" × ")))
            }
            Type::Path(p) => {
                let seg = p.path.segments.last().unwrap();
                let n = seg.ident.to_string();
                let args: Vec<&Type> = match &seg.arguments {
                    syn::PathArguments::AngleBracketed(a) => a
                        .args
                        .iter()
                        .filter_map(|g| if let syn::GenericArgument::Type(t) = g { Some(t) } else { None })
                        .collect(),
                    _ => vec![],
                };
                if let Some(m) = self.cfg.typemap.get(&n) {
                    return Ok(m.clone());
                }
                match n.as_str() {
                    "u8" => Ok("UInt8".into()),
                    "u32" | "u64" | "usize" => Ok("Nat".into()),
                    "bool" => Ok("Bool".into()),
                    "str" | "String" | "RequestId" => Ok("Bytes".into()),
                    "Cow" | "Box" => {
                        if n == "Cow" {
                            Ok("Bytes".into())
                        } else {
                            self.ty(args[0])
                        }
                    }
                    "Vec" => Ok(format!("(List {})", self.ty(args[0])?)),
                    "Option" => Ok(format!("(Option {})", self.ty(args[0])?)),
                    "Result" => Ok(format!("(Option {})", self.ty(args[0])?)),
                    "HashMap" => Ok(format!("(List ({} × {}))", self.ty(args[0])?, self.ty(args[1])?)),
                    "RangeInclusive" => Ok("(Nat × Nat)".into()),
                    "IResult" => Ok(format!("(Parser {})", self.ty(args[1])?)),
                    "ParseResult" => Ok("(Parser Response)".into()),
                    _ => {
                        if n.len() == 1 {
                            Ok(n) // generic parameter: auto-bound implicit
                        } else if n.chars().next().unwrap().is_uppercase() {
                            Ok(n)
                        } else {
                            Err(format!("type {n}"))
                        }
                    }
                }
            }
            Type::ImplTrait(_) => Err("impl Trait".into()),
            _ => Err(format!("type {}", t.to_token_stream())),
        }
    }

    // ---------- literals ----------
    fn bytes_lit(&self, e: &Expr) -> R<Vec<u8>> {
        match e {
            Expr::Lit(l) => match &l.lit {
                syn::Lit::Str(s) => Ok(s.value().into_bytes()),
                syn::Lit::ByteStr(s) => Ok(s.value()),
                _ => Err("literal kind".into()),
            },
            Expr::Reference(r) => self.bytes_lit(&r.expr),
            _ => Err(format!("not a literal: {}", e.to_token_stream())),
        }
    }
    fn lean_bytes(b: &[u8]) -> String {
        format!("([{}] : List UInt8)", b.iter().map(|x| x.to_string()).collect::<Vec<_>>().join(", "))
    }
    fn char_lit(&self, e: &Expr) -> R<u32> {
        match e {
            Expr::Lit(l) => match &l.lit {
                syn::Lit::Char(c) => Ok(c.value() as u32),
                syn::Lit::Byte(b) => Ok(b.value() as u32),
                _ => Err("char literal".into()),
            },
            _ => Err("char literal".into()),
        }
    }

    // ---------- references to functions ----------
    fn fn_ref(&mut self, key: &str) -> R<String> {
        let f = &self.fns[key];
        let cur = self.key();
        // recursion through a configured root
        if let Some((selfname, _, fix)) = self.cfg.recroot.get(key) {
            let in_cluster = cur == key || self.cfg.recmember.get(&cur).map_or(false, |r| r == key);
            if in_cluster {
                return Ok(selfname.clone());
            }
            self.callees.push(key.to_string());
            return Ok(format!("({} {})", lean_fn_name(&f.module, &f.name), fix));
        }
        self.callees.push(key.to_string());
        if let Some(root) = self.cfg.recmember.get(key) {
            let (selfname, _, fix) = &self.cfg.recroot[root];
            let in_cluster = &cur == root || self.cfg.recmember.get(&cur).map_or(false, |r| r == root);
            let arg = if in_cluster { selfname.clone() } else { fix.clone() };
            return Ok(format!("({} {})", lean_fn_name(&f.module, &f.name), arg));
        }
        Ok(lean_fn_name(&f.module, &f.name))
    }

    // ---------- parser expressions ----------
    fn pexpr(&mut self, e: &Expr) -> R<String> {
        match e {
            Expr::Paren(p) => self.pexpr(&p.expr),
            Expr::Path(p) => match self.resolve(&p.path)? {
                Res::Fn(k) => self.fn_ref(&k),
                Res::Local(n) => {
                    if let Some(a) = self.parser_aliases.get(&n) {
                        Ok(a.clone())
                    } else {
                        Ok(Self::local_name(&n))
                    }
                }
                Res::Nom(n) => self.nom_leaf(&n),
                Res::Std(s) => Err(format!("std item {s} used as a parser")),
                _ => Err(format!("not a parser: {}", e.to_token_stream())),
            },
            Expr::Closure(c) => {
                if c.inputs.len() != 1 {
                    return Err("parser closure arity".into());
                }
                let pn = match &c.inputs[0] {
                    Pat::Ident(i) => i.ident.to_string(),
                    Pat::Type(t) => match &*t.pat {
                        Pat::Ident(i) => i.ident.to_string(),
                        _ => return Err("parser closure pattern".into()),
                    },
                    _ => return Err("parser closure pattern".into()),
                };
                self.applied_to_input(&c.body, &pn)
            }
            Expr::Call(c) => {
                let fpath = match &*c.func {
                    Expr::Path(p) => p,
                    _ => return Err(format!("call of non-path {}", c.func.to_token_stream())),
                };
                let args: Vec<&Expr> = c.args.iter().collect();
                match self.resolve(&fpath.path)? {
                    Res::Nom(n) => self.nom_call(&n, &args),
                    Res::Fn(k) => {
                        // user-defined combinator: all arguments are parsers
                        let head = self.fn_ref(&k)?;
                        let mut s = format!("({head}");
                        for a in args {
                            let _ = write!(s, " {}", self.pexpr(a)?);
                        }
                        s.push(')');
                        Ok(s)
                    }
                    _ => Err(format!("call {}", c.func.to_token_stream())),
                }
            }
            _ => Err(format!("parser expression {}", e.to_token_stream())),
        }
    }

    /// `body` must be `P(args.., input)` or `PEXPR(input)`; returns the parser
    fn applied_to_input(&mut self, body: &Expr, input: &str) -> R<String> {
        let c = match body {
            Expr::Call(c) => c,
            Expr::Paren(p) => return self.applied_to_input(&p.expr, input),
            Expr::Block(b) if b.block.stmts.len() == 1 => {
                if let Stmt::Expr(e, None) = &b.block.stmts[0] {
                    return self.applied_to_input(e, input);
                }
                return Err("block".into());
            }
            _ => return Err(format!("not an application to the input: {}", body.to_token_stream())),
        };
        let args: Vec<&Expr> = c.args.iter().collect();
        let last_is_input = match args.last() {
            Some(Expr::Path(p)) => p.path.is_ident(input),
            _ => false,
        };
        if !last_is_input {
            return Err(format!("last argument is not the input `{input}`: {}", body.to_token_stream()));
        }
        if args.len() == 1 {
            // PEXPR(i)
            return self.pexpr(&c.func);
        }
        // f(a1, .., ak, i): a grammar function with extra value parameters
        let fpath = match &*c.func {
            Expr::Path(p) => p,
            _ => return Err("call head".into()),
        };
        match self.resolve(&fpath.path)? {
            Res::Fn(k) => {
                let head = self.fn_ref(&k)?;
                let mut s = format!("({head}");
                for a in &args[..args.len() - 1] {
                    let _ = write!(s, " {}", self.vexpr(a)?);
                }
                s.push(')');
                Ok(s)
            }
            _ => Err("call with extra arguments of a non-function".into()),
        }
    }

    fn nom_leaf(&mut self, n: &str) -> R<String> {
        match n {
            "nom::character::streaming::space0" => Ok("Parser.space0".into()),
            "nom::character::streaming::space1" => Ok("Parser.space1".into()),
            _ => Err(format!("nom item {n} is not in the model")),
        }
    }

    fn seq_tuple(&mut self, items: &[&Expr]) -> R<String> {
        let mut s = String::from("(do");
        let mut names = vec![];
        for (k, it) in items.iter().enumerate() {
            let p = self.pexpr(it)?;
            let _ = write!(s, " let x{k} ← {p};");
            names.push(format!("x{k}"));
        }
        let _ = write!(s, " pure ({}))", names.join(", "));
        Ok(s)
    }

    fn tuple_items<'e>(&self, e: &'e Expr) -> R<Vec<&'e Expr>> {
        match e {
            Expr::Tuple(t) => Ok(t.elems.iter().collect()),
            Expr::Paren(p) => Ok(vec![&*p.expr]),
            _ => Err(format!("expected a tuple of parsers: {}", e.to_token_stream())),
        }
    }

    fn nom_call(&mut self, n: &str, args: &[&Expr]) -> R<String> {
        let short = n.rsplit("::").next().unwrap();
        let streaming_ok = |n: &str| n.contains("::streaming::");
        match short {
            "tag" | "tag_no_case" | "take" | "take_while" | "take_while1" | "escaped" | "char" | "one_of" | "digit1" | "space0" | "space1" => {
                if !streaming_ok(n) {
                    return Err(format!("{n}: only the streaming combinators are in the model"));
                }
            }
            _ => {}
        }
        match (short, args.len()) {
            ("tag", 1) => Ok(format!("(Gen.tag {})", Self::lean_bytes(&self.bytes_lit(args[0])?))),
            ("tag_no_case", 1) => Ok(format!("(Parser.tagNoCase {})", Self::lean_bytes(&self.bytes_lit(args[0])?))),
            ("char", 1) => Ok(format!("(Parser.char {})", self.char_lit(args[0])?)),
            ("take", 1) => Ok(format!("(Parser.take {})", self.vexpr(args[0])?)),
            ("take_while", 1) => Ok(format!("(Parser.takeWhile {})", self.pred(args[0])?)),
            ("take_while1", 1) => Ok(format!("(Parser.takeWhile1 {})", self.pred(args[0])?)),
            ("escaped", 3) => {
                // only the one shape the model has: escaped(take_while1(normal), '\\', one_of("\\\""))
                let normal = match args[0] {
                    Expr::Call(c) => {
                        let ok = matches!(&*c.func, Expr::Path(p) if matches!(self.resolve(&p.path), Ok(Res::Nom(ref m)) if m == "nom::bytes::streaming::take_while1"));
                        if !ok || c.args.len() != 1 {
                            return Err("escaped: normal parser is not take_while1(..)".into());
                        }
                        self.pred(&c.args[0])?
                    }
                    _ => return Err("escaped: normal parser".into()),
                };
                if self.char_lit(args[1])? != 92 {
                    return Err("escaped: control character is not a backslash".into());
                }
                let esc_ok = match args[2] {
                    Expr::Call(c) => {
                        matches!(&*c.func, Expr::Path(p) if matches!(self.resolve(&p.path), Ok(Res::Nom(ref m)) if m == "nom::character::streaming::one_of"))
                            && c.args.len() == 1
                            && self.bytes_lit(&c.args[0]).map_or(false, |b| b == b"\\\"")
                    }
                    _ => false,
                };
                if !esc_ok {
                    return Err("escaped: escapable set is not one_of(\"\\\\\\\"\")".into());
                }
                Ok(format!("(Parser.escaped {normal})"))
            }
            ("alt", 1) => {
                let items = self.tuple_items(args[0])?;
                let mut parts = vec![];
                for it in &items {
                    parts.push(self.pexpr(it)?);
                }
                let mut s = parts.pop().ok_or("empty alt")?;
                while let Some(p) = parts.pop() {
                    s = format!("(Parser.alt {p} {s})");
                }
                Ok(s)
            }
            ("tuple", 1) => {
                let items = self.tuple_items(args[0])?;
                self.seq_tuple(&items)
            }
            ("pair", 2) => Ok(format!("(Gen.pair {} {})", self.pexpr(args[0])?, self.pexpr(args[1])?)),
            ("separated_pair", 3) => Ok(format!(
                "(Gen.separatedPair {} {} {})",
                self.pexpr(args[0])?,
                self.pexpr(args[1])?,
                self.pexpr(args[2])?
            )),
            ("preceded", 2) => Ok(format!("(Gen.preceded {} {})", self.pexpr(args[0])?, self.pexpr(args[1])?)),
            ("terminated", 2) => Ok(format!("(Gen.terminated {} {})", self.pexpr(args[0])?, self.pexpr(args[1])?)),
            ("delimited", 3) => Ok(format!(
                "(Gen.delimited {} {} {})",
                self.pexpr(args[0])?,
                self.pexpr(args[1])?,
                self.pexpr(args[2])?
            )),
            ("opt", 1) => Ok(format!("(Parser.opt {})", self.pexpr(args[0])?)),
            ("many0", 1) => Ok(format!("(Parser.many0 {})", self.pexpr(args[0])?)),
            ("many1", 1) => Ok(format!("(Parser.many1 {})", self.pexpr(args[0])?)),
            ("separated_list0", 2) => Ok(format!("(Parser.sepList0 (Gen.void {}) {})", self.pexpr(args[0])?, self.pexpr(args[1])?)),
            ("separated_list1", 2) => Ok(format!("(Parser.sepList1 (Gen.void {}) {})", self.pexpr(args[0])?, self.pexpr(args[1])?)),
            ("recognize", 1) => Ok(format!("(Gen.recognize {})", self.pexpr(args[0])?)),
            ("map", 2) => {
                let p = self.pexpr(args[0])?;
                if let (Expr::Call(tc), Expr::Closure(c)) = (args[0], args[1]) {
                    let is_tuple = matches!(&*tc.func, Expr::Path(p) if p.path.segments.last().map_or(false, |s| s.ident == "tuple"));
                    if is_tuple && tc.args.len() == 1 && c.inputs.len() == 1 {
                        if let (Expr::Tuple(items), Pat::Tuple(pt)) = (&tc.args[0], &c.inputs[0]) {
                            if items.elems.len() == pt.elems.len() {
                                for (it, pe) in items.elems.iter().zip(pt.elems.iter()) {
                                    if let Pat::Ident(i) = pe {
                                        if let Some(n) = parity(self, it) {
                                            self.tuple_arity.insert(i.ident.to_string(), n);
                                        }
                                    }
                                }
                            }
                        }
                    }
                }
                if let (Some(n), Expr::Closure(c)) = (parity(self, args[0]), args[1]) {
                    if c.inputs.len() == 1 {
                        if let Pat::Ident(i) = &c.inputs[0] {
                            self.tuple_arity.insert(i.ident.to_string(), n);
                        }
                    }
                }
                match self.func(args[1], FnMode::Plain)? {
                    FnTerm::Identity => Ok(p),
                    FnTerm::Term(f) => Ok(format!("(Parser.map {p} {f})")),
                    FnTerm::Opaque(kind, f) => Ok(format!("(Parser.{kind} {p} {f})")),
                }
            }
            ("map_res", 2) => {
                let p = self.pexpr(args[0])?;
                match self.func(args[1], FnMode::Result)? {
                    FnTerm::Identity => Err("map_res with an identity".into()),
                    FnTerm::Term(f) => Ok(format!("(Parser.mapRes {p} {f})")),
                    FnTerm::Opaque(kind, f) => Ok(format!("(Parser.{kind} {p} {f})")),
                }
            }
            _ => Err(format!("nom combinator {n}/{} is not in the model", args.len())),
        }
    }

    /// a byte predicate: a path to an `is_*` function or a closure over one byte
    fn pred(&mut self, e: &Expr) -> R<String> {
        match e {
            Expr::Path(p) => match self.resolve(&p.path)? {
                Res::Fn(k) => self.fn_ref(&k),
                _ => Err("predicate".into()),
            },
            Expr::Closure(c) => {
                if c.inputs.len() != 1 {
                    return Err("predicate closure arity".into());
                }
                let (pat, binds) = self.pat(&c.inputs[0])?;
                self.locals.push(binds);
                let b = self.vexpr(&c.body);
                self.locals.pop();
                Ok(format!("(fun {pat} => {})", b?))
            }
            _ => Err("predicate".into()),
        }
    }

    // ---------- patterns ----------
    fn pat(&self, p: &Pat) -> R<(String, HashSet<String>)> {
        let mut binds = HashSet::new();
        let s = self.pat_go(p, &mut binds)?;
        Ok((s, binds))
    }
    fn pat_go(&self, p: &Pat, binds: &mut HashSet<String>) -> R<String> {
        match p {
            Pat::Wild(_) => Ok("_".into()),
            Pat::Ident(i) => {
                if i.subpat.is_some() || i.by_ref.is_some() {
                    return Err("pattern binding mode".into());
                }
                let n = i.ident.to_string();
                binds.insert(n.clone());
                Ok(Self::local_name(&n))
            }
            Pat::Type(t) => self.pat_go(&t.pat, binds),
            Pat::Paren(t) => self.pat_go(&t.pat, binds),
            Pat::Reference(r) => self.pat_go(&r.pat, binds),
            Pat::Tuple(t) => {
                let parts: R<Vec<String>> = t.elems.iter().map(|e| self.pat_go(e, binds)).collect();
                Ok(format!("({})", parts?.join(", ")))
            }
            _ => Err(format!("pattern {}", p.to_token_stream())),
        }
    }

    // ---------- functions used as values (second argument of map / map_res, Option::map ..) ----------
    fn func(&mut self, e: &Expr, mode: FnMode) -> R<FnTerm> {
        match e {
            Expr::Paren(p) => self.func(&p.expr, mode),
            Expr::Path(p) => {
                let r = self.resolve(&p.path)?;
                match r {
                    Res::Std(s) => match s.as_str() {
                        "std::borrow::Cow::Borrowed" | "Box::new" | "String::from" => Ok(FnTerm::Identity),
                        "Some" | "Option::from" | "Option::Some" => Ok(FnTerm::Term("some".into())),
                        "std::str::from_utf8" => Ok(FnTerm::Term("Grammar.utf8".into())),
                        "From::from" => match self.cfg.intomap.get(&self.key()) {
                            Some(t) => Ok(FnTerm::Term(t.clone())),
                            None => Err("From::from without an `into` entry in the config".into()),
                        },
                        _ => Err(format!("std function {s}")),
                    },
                    Res::Ty(segs) => Ok(FnTerm::Term(self.ctor(&segs)?)),
                    Res::Fn(k) => Ok(FnTerm::Term(self.fn_ref(&k)?)),
                    Res::Local(n) => Ok(FnTerm::Term(Self::local_name(&n))),
                    _ => Err("function value".into()),
                }
            }
            Expr::Closure(c) => {
                let k = self.closure_ix;
                self.closure_ix += 1;
                let ckey = format!("{}#{k}", self.key());
                let fp = fnv(&c.to_token_stream().to_string());
                if let Some((kind, term, want)) = self.cfg.closures.get(&ckey) {
                    if &fp != want {
                        return Err(format!("closure {ckey} changed (fingerprint {fp}, recorded {want}); it is bound by hand to {term}"));
                    }
                    self.opaque_closures.push(format!("{ckey} -> {term}"));
                    return Ok(FnTerm::Opaque(kind.clone(), term.clone()));
                }
                if c.inputs.len() != 1 {
                    return Err("closure arity".into());
                }
                let (pat, binds) = self.pat(&c.inputs[0])?;
                self.locals.push(binds);
                let body = match mode {
                    FnMode::Plain => self.vexpr(&c.body),
                    FnMode::Result => self.rexpr(&c.body),
                };
                self.locals.pop();
                let body = body.map_err(|e| format!("closure {ckey} (fingerprint {fp}): {e}"))?;
                if pat.starts_with('(') {
                    Ok(FnTerm::Term(format!("(fun x => match x with | {pat} => {body})")))
                } else {
                    Ok(FnTerm::Term(format!("(fun {pat} => {body})")))
                }
            }
            _ => Err(format!("function value {}", e.to_token_stream())),
        }
    }

    fn ctor(&self, segs: &[String]) -> R<String> {
        if segs.len() == 1 {
            // tuple struct constructor used as a function
            return match self.cfg.ctormap.get(&segs[0]) {
                Some(t) => Ok(t.clone()),
                None => Err(format!("constructor {}", segs[0])),
            };
        }
        if segs.len() != 2 {
            return Err(format!("constructor path {}", segs.join("::")));
        }
        let full = format!("{}::{}", segs[0], segs[1]);
        if let Some(t) = self.cfg.ctormap.get(&full) {
            return Ok(t.clone());
        }
        let tyn = self.cfg.typemap.get(&segs[0]).cloned().unwrap_or(segs[0].clone());
        Ok(format!("{}.{}", tyn, lower_first(&segs[1])))
    }

    fn field(&self, f: &str) -> String {
        self.cfg.fieldmap.get(f).cloned().unwrap_or_else(|| camel(f))
    }

    // ---------- value expressions ----------
    fn vexpr(&mut self, e: &Expr) -> R<String> {
        match e {
            Expr::Paren(p) => Ok(format!("({})", self.vexpr(&p.expr)?)),
            Expr::Group(p) => self.vexpr(&p.expr),
            Expr::Reference(r) => self.vexpr(&r.expr),
            Expr::Unary(u) => match u.op {
                syn::UnOp::Deref(_) => self.vexpr(&u.expr),
                syn::UnOp::Not(_) => Ok(format!("(!{})", self.vexpr(&u.expr)?)),
                _ => Err("unary operator".into()),
            },
            Expr::Lit(l) => match &l.lit {
                syn::Lit::Int(i) => Ok(i.base10_parse::<u128>().map_err(|e| e.to_string())?.to_string()),
                syn::Lit::Byte(b) => Ok(b.value().to_string()),
                syn::Lit::Char(c) => Ok((c.value() as u32).to_string()),
                syn::Lit::Bool(b) => Ok(b.value.to_string()),
                syn::Lit::Str(s) => Ok(Self::lean_bytes(s.value().as_bytes())),
                syn::Lit::ByteStr(s) => Ok(Self::lean_bytes(&s.value())),
                _ => Err("literal".into()),
            },
            Expr::Path(p) => match self.resolve(&p.path)? {
                Res::Local(n) => Ok(Self::local_name(&n)),
                Res::Const(k) => {
                    let (m, n) = k.split_once("::").unwrap();
                    Ok(format!("Gen.{m}.{n}"))
                }
                Res::Ty(segs) => self.ctor(&segs),
                Res::Std(s) if s == "None" || s == "Option::None" => Ok("none".into()),
                Res::Fn(k) => self.fn_ref(&k),
                _ => Err(format!("value path {}", e.to_token_stream())),
            },
            Expr::Tuple(t) => {
                if t.elems.is_empty() {
                    return Ok("()".into());
                }
                let parts: R<Vec<String>> = t.elems.iter().map(|x| self.vexpr(x)).collect();
                Ok(format!("({})", parts?.join(", ")))
            }
            Expr::Binary(b) => {
                let l = self.vexpr(&b.left)?;
                let r = self.vexpr(&b.right)?;
                let op = match b.op {
                    syn::BinOp::Eq(_) => "==",
                    syn::BinOp::Ne(_) => "!=",
                    syn::BinOp::Lt(_) => "<",
                    syn::BinOp::Le(_) => "≤",
                    syn::BinOp::Gt(_) => ">",
                    syn::BinOp::Ge(_) => "≥",
                    syn::BinOp::And(_) => "&&",
                    syn::BinOp::Or(_) => "||",
                    syn::BinOp::Add(_) => "+",
                    _ => return Err(format!("binary operator in {}", e.to_token_stream())),
                };
                Ok(format!("({l} {op} {r})"))
            }
            Expr::If(i) => {
                let c = self.vexpr(&i.cond)?;
                let t = self.block_value(&i.then_branch)?;
                let el = match &i.else_branch {
                    Some((_, e)) => self.vexpr(e)?,
                    None => return Err("if without else".into()),
                };
                Ok(format!("(if {c} then {t} else {el})"))
            }
            Expr::Block(b) => self.block_value(&b.block),
            Expr::Range(r) => {
                // a..=b : RangeInclusive, modelled as the pair
                match (&r.start, &r.end, &r.limits) {
                    (Some(a), Some(b), syn::RangeLimits::Closed(_)) => Ok(format!("({}, {})", self.vexpr(a)?, self.vexpr(b)?)),
                    _ => Err("range form".into()),
                }
            }
            Expr::Macro(m) => {
                let name = m.mac.path.segments.last().unwrap().ident.to_string();
                if name == "vec" {
                    let elems: syn::punctuated::Punctuated<Expr, syn::Token![,]> =
                        m.mac.parse_body_with(syn::punctuated::Punctuated::parse_terminated).map_err(|e| e.to_string())?;
                    let parts: R<Vec<String>> = elems.iter().map(|x| self.vexpr(x)).collect();
                    return Ok(format!("[{}]", parts?.join(", ")));
                }
                if name == "matches" {
                    // matches!(x, PAT) with PAT built from literals, closed ranges and `|`
                    let ma: MatchesCall = m.mac.parse_body().map_err(|e| e.to_string())?;
                    let x = self.vexpr(&ma.scrut)?;
                    return self.pat_test(&x, &ma.pat);
                }
                Err(format!("macro {name}!"))
            }
            Expr::Call(c) => {
                let fpath = match &*c.func {
                    Expr::Path(p) => p,
                    _ => return Err("call head".into()),
                };
                let args: Vec<&Expr> = c.args.iter().collect();
                match self.resolve(&fpath.path)? {
                    Res::Std(s) => match (s.as_str(), args.len()) {
                        ("Some", 1) | ("Option::Some", 1) | ("Option::from", 1) => Ok(format!("(some {})", self.vexpr(args[0])?)),
                        ("std::borrow::Cow::Borrowed", 1) | ("Box::new", 1) | ("String::from", 1) => self.vexpr(args[0]),
                        _ => Err(format!("std call {s}")),
                    },
                    Res::Ty(segs) => {
                        let head = self.ctor(&segs)?;
                        if head == "id" {
                            return self.vexpr(args[0]);
                        }
                        let parts: R<Vec<String>> = args.iter().map(|x| self.vexpr(x)).collect();
                        Ok(format!("({head} {})", parts?.join(" ")))
                    }
                    Res::Fn(k) => {
                        let head = self.fn_ref(&k)?;
                        let parts: R<Vec<String>> = args.iter().map(|x| self.vexpr(x)).collect();
                        Ok(format!("({head} {})", parts?.join(" ")))
                    }
                    _ => Err(format!("call {}", e.to_token_stream())),
                }
            }
            Expr::Struct(s) => {
                if s.rest.is_some() {
                    return Err("struct update syntax".into());
                }
                let segs: Vec<String> = s.path.segments.iter().map(|x| x.ident.to_string()).collect();
                let mut fields = vec![];
                for f in &s.fields {
                    let name = match &f.member {
                        syn::Member::Named(n) => n.to_string(),
                        _ => return Err("tuple struct literal".into()),
                    };
                    fields.push((self.field(&name), self.vexpr(&f.expr)?));
                }
                if segs.len() == 1 {
                    let tyn = self.cfg.typemap.get(&segs[0]).cloned().unwrap_or(segs[0].clone());
                    let body: Vec<String> = fields.iter().map(|(n, v)| format!("{n} := {v}")).collect();
                    Ok(format!("({{ {} }} : {tyn})", body.join(", ")))
                } else {
                    let head = self.ctor(&segs)?;
                    let body: Vec<String> = fields.iter().map(|(n, v)| format!("({n} := {v})")).collect();
                    Ok(format!("({head} {})", body.join(" ")))
                }
            }
            Expr::Field(f) => {
                let base = self.vexpr(&f.base)?;
                match &f.member {
                    syn::Member::Named(n) => Ok(format!("{base}.{}", self.field(&n.to_string()))),
                    syn::Member::Unnamed(ix) => {
                        // tuple projection: only pairs and the first component are position-independent
                        match ix.index {
                            0 => Ok(format!("{base}.1")),
                            k => {
                                let ar = self.tuple_arity_of(&f.base)?;
                                let k = k as usize;
                                if k >= ar {
                                    return Err("tuple index out of range".into());
                                }
                                let mut s = base;
                                for _ in 0..k {
                                    s.push_str(".2");
                                }
                                if k < ar - 1 {
                                    s.push_str(".1");
                                }
                                Ok(s)
                            }
                        }
                    }
                }
            }
            Expr::MethodCall(m) => self.method(m),
            Expr::Index(_) => Err("indexing / slicing (can panic; bound by hand)".into()),
            _ => Err(format!("value expression {}", e.to_token_stream())),
        }
    }

    /// boolean test `x matches pat` for patterns built from literals, closed ranges and `|`
    fn pat_test(&mut self, x: &str, p: &Pat) -> R<String> {
        match p {
            Pat::Paren(q) => self.pat_test(x, &q.pat),
            Pat::Lit(l) => {
                let e = Expr::Lit(syn::ExprLit { attrs: vec![], lit: l.lit.clone() });
                Ok(format!("({x} == {})", self.vexpr(&e)?))
            }
            Pat::Range(r) => match (&r.start, &r.end, &r.limits) {
                (Some(a), Some(b), syn::RangeLimits::Closed(_)) => Ok(format!("({} ≤ {x} && {x} ≤ {})", self.vexpr(a)?, self.vexpr(b)?)),
                _ => Err("range pattern form".into()),
            },
            Pat::Or(o) => {
                let parts: R<Vec<String>> = o.cases.iter().map(|c| self.pat_test(x, c)).collect();
                Ok(format!("({})", parts?.join(" || ")))
            }
            Pat::Wild(_) => Ok("true".into()),
            _ => Err(format!("matches! pattern {}", p.to_token_stream())),
        }
    }

    fn tuple_arity_of(&self, base: &Expr) -> R<usize> {
        // the arity of a tuple-typed local is recorded in the notes of the enclosing closure
        if let Expr::Path(p) = base {
            if let Some(id) = p.path.get_ident() {
                if let Some(a) = self.tuple_arity.get(&id.to_string()) {
                    return Ok(*a);
                }
            }
        }
        Err("tuple arity unknown".into())
    }

    fn block_value(&mut self, b: &syn::Block) -> R<String> {
        if b.stmts.len() == 1 {
            if let Stmt::Expr(e, None) = &b.stmts[0] {
                return self.vexpr(e);
            }
        }
        // let-bindings followed by a value
        let mut out = String::from("(");
        let mut pushed = 0;
        let n = b.stmts.len();
        for (k, st) in b.stmts.iter().enumerate() {
            match st {
                Stmt::Local(l) if k + 1 < n => {
                    let init = l.init.as_ref().ok_or("let without initialiser")?;
                    if init.diverge.is_some() {
                        return Err("let-else".into());
                    }
                    let v = self.vexpr(&init.expr)?;
                    let (pat, binds) = self.pat(&l.pat)?;
                    self.locals.push(binds);
                    pushed += 1;
                    let _ = write!(out, "let {pat} := {v}; ");
                }
                Stmt::Expr(e, None) if k + 1 == n => {
                    let v = self.vexpr(e);
                    for _ in 0..pushed {
                        self.locals.pop();
                    }
                    let v = v?;
                    let _ = write!(out, "{v})");
                    return Ok(out);
                }
                _ => {
                    for _ in 0..pushed {
                        self.locals.pop();
                    }
                    return Err("statement form in a value block (loop, assignment, early return ..)".into());
                }
            }
        }
        Err("empty block".into())
    }

    fn method(&mut self, m: &syn::ExprMethodCall) -> R<String> {
        let name = m.method.to_string();
        let args: Vec<&Expr> = m.args.iter().collect();
        let recv = self.vexpr(&m.receiver)?;
        match (name.as_str(), args.len()) {
            ("map", 1) => match self.func(args[0], FnMode::Plain)? {
                FnTerm::Identity => Ok(recv),
                FnTerm::Term(f) => Ok(format!("(Option.map {f} {recv})")),
                FnTerm::Opaque(kind, f) if kind == "map" => {
                    if f == "id" {
                        Ok(recv)
                    } else {
                        Ok(format!("(Option.map {f} {recv})"))
                    }
                }
                FnTerm::Opaque(..) => Err("opaque closure under Option::map".into()),
            },
            ("is_some", 0) => Ok(format!("{recv}.isSome")),
            ("is_none", 0) => Ok(format!("{recv}.isNone")),
            ("is_empty", 0) => Ok(format!("{recv}.isEmpty")),
            ("len", 0) => Ok(format!("{recv}.length")),
            ("to_string", 0) | ("to_owned", 0) | ("as_bytes", 0) | ("iter", 0) | ("clone", 0) | ("as_ref", 0) => Ok(recv),
            ("unwrap_or", 1) => Ok(format!("({recv}.getD {})", self.vexpr(args[0])?)),
            ("contains", 1) => Ok(format!("({recv}.contains {})", self.vexpr(args[0])?)),
            ("all", 1) => Ok(format!("({recv}.all {})", self.pred(args[0])?)),
            ("eq_ignore_ascii_case", 1) => Ok(format!("(Bytes.eqIgnoreAsciiCase {recv} {})", self.vexpr(args[0])?)),
            ("into", 0) => match self.cfg.intomap.get(&self.key()) {
                Some(t) => Ok(format!("({t} {recv})")),
                None => Err("`.into()` without an `into` entry in the config".into()),
            },
            ("ok_or", 1) => Ok(recv), // Option -> Result<_, ()>: both are `Option` in the model
            _ => Err(format!("method .{name}/{}", args.len())),
        }
    }

    /// expression of type Result<T, E> (closure of map_res), as an `Option`
    fn rexpr(&mut self, e: &Expr) -> R<String> {
        match e {
            Expr::Paren(p) => self.rexpr(&p.expr),
            Expr::Block(b) if b.block.stmts.len() == 1 => match &b.block.stmts[0] {
                Stmt::Expr(e, None) => self.rexpr(e),
                _ => Err("block".into()),
            },
            Expr::If(i) => {
                let c = self.vexpr(&i.cond)?;
                let t = if i.then_branch.stmts.len() == 1 {
                    match &i.then_branch.stmts[0] {
                        Stmt::Expr(e, None) => self.rexpr(e)?,
                        _ => return Err("block".into()),
                    }
                } else {
                    return Err("block".into());
                };
                let el = match &i.else_branch {
                    Some((_, e)) => self.rexpr(e)?,
                    None => return Err("if without else".into()),
                };
                Ok(format!("(if {c} then {t} else {el})"))
            }
            Expr::Call(c) => {
                if let Expr::Path(p) = &*c.func {
                    if p.path.is_ident("Ok") && c.args.len() == 1 {
                        return Ok(format!("(some {})", self.vexpr(&c.args[0])?));
                    }
                    if p.path.is_ident("Err") && c.args.len() == 1 {
                        return Ok("none".into());
                    }
                    match self.resolve(&p.path)? {
                        Res::Std(s) if s == "std::str::from_utf8" && c.args.len() == 1 => {
                            return Ok(format!("(Grammar.utf8 {})", self.vexpr(&c.args[0])?));
                        }
                        Res::Fn(k) => {
                            let ret = self.fns[&k].item.sig.output.to_token_stream().to_string();
                            if ret.contains("Result") {
                                let head = self.fn_ref(&k)?;
                                let parts: R<Vec<String>> = c.args.iter().map(|x| self.vexpr(x)).collect();
                                return Ok(format!("({head} {})", parts?.join(" ")));
                            }
                        }
                        _ => {}
                    }
                }
                Err(format!("result expression {}", e.to_token_stream()))
            }
            Expr::MethodCall(m) if m.method == "ok_or" => self.vexpr(&m.receiver),
            Expr::MethodCall(m) if m.method == "map" && m.args.len() == 1 => {
                let recv = self.rexpr(&m.receiver)?;
                match self.func(&m.args[0], FnMode::Plain)? {
                    FnTerm::Identity => Ok(recv),
                    FnTerm::Term(f) => Ok(format!("(Option.map {f} {recv})")),
                    FnTerm::Opaque(..) => Err("opaque closure under Result::map".into()),
                }
            }
            _ => Err(format!("result expression {}", e.to_token_stream())),
        }
    }
}

struct MatchesCall {
    scrut: Expr,
    pat: Pat,
}
impl syn::parse::Parse for MatchesCall {
    fn parse(input: syn::parse::ParseStream) -> syn::Result<Self> {
        let scrut: Expr = input.parse()?;
        let _: syn::Token![,] = input.parse()?;
        let pat = Pat::parse_multi_with_leading_vert(input)?;
        if input.peek(syn::Token![,]) {
            let _: syn::Token![,] = input.parse()?;
        }
        if !input.is_empty() {
            return Err(input.error("matches! with a guard"));
        }
        Ok(MatchesCall { scrut, pat })
    }
}

#[derive(Clone, Copy)]
enum FnMode {
    Plain,
    Result,
}
enum FnTerm {
    Identity,
    Term(String),
    Opaque(String, String),
}

fn main() {
    let a: Vec<String> = std::env::args().collect();
    if a.len() >= 7 && a[1] == "--own" {
        own_main(&a[2], &a[3], &a[4], &a[5], &a[6]);
        return;
    }
    if a.len() < 6 {
        eprintln!("usage: rs2lean <parser-src-dir> <config> <out-Parser.lean> <out-Tie.lean> <out-report.json>");
        std::process::exit(2);
    }
    vh_translate_main(&a[1], &a[2], &a[3], &a[4], &a[5]);
}

include!("driver.rs");
include!("own.rs");
