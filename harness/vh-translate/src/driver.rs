// driver: load sources, translate every function, emit Parser.lean / Tie.lean / report.json

fn flatten_use(tree: &UseTree, prefix: &mut Vec<String>, u: &mut Uses) {
    match tree {
        UseTree::Path(p) => {
            prefix.push(p.ident.to_string());
            flatten_use(&p.tree, prefix, u);
            prefix.pop();
        }
        UseTree::Name(n) => {
            let mut full = prefix.clone();
            let id = n.ident.to_string();
            if id != "self" {
                full.push(id.clone());
                u.names.insert(id, full);
            } else if let Some(last) = prefix.last() {
                u.names.insert(last.clone(), full);
            }
        }
        UseTree::Rename(r) => {
            let mut full = prefix.clone();
            full.push(r.ident.to_string());
            u.names.insert(r.rename.to_string(), full);
        }
        UseTree::Glob(_) => {
            u.globs.push(prefix.clone());
        }
        UseTree::Group(g) => {
            for t in &g.items {
                flatten_use(t, prefix, u);
            }
        }
    }
}

fn is_cfg_test(attrs: &[syn::Attribute]) -> bool {
    attrs.iter().any(|a| a.path().is_ident("cfg") && a.to_token_stream().to_string().contains("test"))
}

fn collect_files(dir: &std::path::Path, rel: &mut Vec<String>, out: &mut Vec<(String, std::path::PathBuf)>) {
    let mut entries: Vec<_> = std::fs::read_dir(dir).unwrap().map(|e| e.unwrap().path()).collect();
    entries.sort();
    for p in entries {
        let name = p.file_name().unwrap().to_string_lossy().to_string();
        if p.is_dir() {
            rel.push(name);
            collect_files(&p, rel, out);
            rel.pop();
        } else if name.ends_with(".rs") && name != "tests.rs" {
            let stem = name.trim_end_matches(".rs").to_string();
            let mut parts = rel.clone();
            if stem != "mod" {
                parts.push(stem);
            }
            let module = if parts.is_empty() { "parser".to_string() } else { parts.join("__") };
            out.push((module, p));
        }
    }
}

fn fnmut_output(bounds: &syn::punctuated::Punctuated<syn::TypeParamBound, syn::Token![+]>) -> Option<Type> {
    for b in bounds {
        if let syn::TypeParamBound::Trait(t) = b {
            let seg = t.path.segments.last()?;
            if seg.ident == "FnMut" || seg.ident == "Fn" {
                if let syn::PathArguments::Parenthesized(p) = &seg.arguments {
                    if let ReturnType::Type(_, ty) = &p.output {
                        return Some((**ty).clone());
                    }
                }
            }
        }
    }
    None
}

struct Outcome {
    def: Result<String, String>,
    callees: Vec<String>,
    opaque_closures: Vec<String>,
    fp: String,
    is_parser: bool,
    stable_head: String,
}

fn json_str(s: &str) -> String {
    let mut o = String::from("\"");
    for c in s.chars() {
        match c {
            '"' => o.push_str("\\\""),
            '\\' => o.push_str("\\\\"),
            '\n' => o.push_str("\\n"),
            '\t' => o.push_str("\\t"),
            c if (c as u32) < 32 => {
                let _ = write!(o, "\\u{:04x}", c as u32);
            }
            c => o.push(c),
        }
    }
    o.push('"');
    o
}

fn replace_token(text: &str, from: &str, to: &str) -> String {
    let is_id = |c: char| c.is_alphanumeric() || c == '_' || c == '.' || c == '«' || c == '»';
    let mut out = String::new();
    let mut rest = text;
    while let Some(pos) = rest.find(from) {
        let before_ok = rest[..pos].chars().last().map_or(true, |c| !is_id(c));
        let after = &rest[pos + from.len()..];
        let after_ok = after.chars().next().map_or(true, |c| !is_id(c));
        out.push_str(&rest[..pos]);
        if before_ok && after_ok {
            out.push_str(to);
        } else {
            out.push_str(from);
        }
        rest = after;
    }
    out.push_str(rest);
    out
}

fn parity(tr: &Tr, e: &Expr) -> Option<usize> {
    match e {
        Expr::Paren(p) => parity(tr, &p.expr),
        Expr::Path(p) => match tr.resolve(&p.path).ok()? {
            Res::Fn(k) => {
                let f = &tr.fns[&k];
                if let ReturnType::Type(_, t) = &f.item.sig.output {
                    if let Type::Path(tp) = &**t {
                        let seg = tp.path.segments.last()?;
                        if let syn::PathArguments::AngleBracketed(a) = &seg.arguments {
                            let tys: Vec<&Type> = a.args.iter().filter_map(|g| if let syn::GenericArgument::Type(t) = g { Some(t) } else { None }).collect();
                            if tys.len() >= 2 {
                                if let Type::Tuple(t) = tys[1] {
                                    return Some(t.elems.len());
                                }
                            }
                        }
                    }
                }
                None
            }
            _ => None,
        },
        Expr::Call(c) => {
            let name = match &*c.func {
                Expr::Path(p) => p.path.segments.last()?.ident.to_string(),
                _ => return None,
            };
            let args: Vec<&Expr> = c.args.iter().collect();
            match (name.as_str(), args.len()) {
                ("preceded", 2) => parity(tr, args[1]),
                ("terminated", 2) => parity(tr, args[0]),
                ("delimited", 3) => parity(tr, args[1]),
                ("tuple", 1) => match args[0] {
                    Expr::Tuple(t) => Some(t.elems.len()),
                    _ => None,
                },
                ("pair", 2) | ("separated_pair", 3) => Some(2),
                _ => None,
            }
        }
        _ => None,
    }
}

impl<'a> Tr<'a> {
    fn nom_err_kind(&self, e: &Expr) -> Option<&'static str> {
        // Err(nom::Err::Error(..)) / Err(nom::Err::Failure(..))
        if let Expr::Call(c) = e {
            if let Expr::Path(p) = &*c.func {
                if p.path.is_ident("Err") && c.args.len() == 1 {
                    if let Expr::Call(inner) = &c.args[0] {
                        if let Expr::Path(ip) = &*inner.func {
                            let segs: Vec<String> = ip.path.segments.iter().map(|s| s.ident.to_string()).collect();
                            let s = segs.join("::");
                            if s.ends_with("Err::Error") {
                                return Some("Gen.error");
                            }
                            if s.ends_with("Err::Failure") {
                                return Some("Gen.failure");
                            }
                        }
                    }
                }
            }
        }
        None
    }

    fn ret_parser(&mut self, e: &Expr, cur: &str) -> R<String> {
        if let Some(k) = self.nom_err_kind(e) {
            return Ok(k.to_string());
        }
        self.applied_to_input(e, cur)
    }

    fn stmts_to_parser(&mut self, stmts: &[Stmt], cur: &str) -> R<String> {
        if stmts.is_empty() {
            return Err("empty body".into());
        }
        if stmts.len() == 1 {
            return match &stmts[0] {
                Stmt::Expr(e, None) => self.tail(e, cur),
                Stmt::Expr(Expr::Return(r), Some(_)) => {
                    let e = r.expr.as_ref().ok_or("bare return")?;
                    self.tail(e, cur)
                }
                _ => Err("body does not end in an expression".into()),
            };
        }
        let rest = &stmts[1..];
        match &stmts[0] {
            Stmt::Local(l) => {
                let init = l.init.as_ref().ok_or("let without initialiser")?;
                if init.diverge.is_some() {
                    return Err("let-else".into());
                }
                if let Expr::Try(t) = &*init.expr {
                    // let (i2, PAT) = P(cur)?;
                    let p = self.applied_to_input(&t.expr, cur)?;
                    let (newcur, vpat) = match &l.pat {
                        Pat::Tuple(tp) if tp.elems.len() == 2 => {
                            let nc = match &tp.elems[0] {
                                Pat::Ident(i) => i.ident.to_string(),
                                _ => return Err("the rest-of-input pattern is not a name".into()),
                            };
                            (nc, &tp.elems[1])
                        }
                        _ => return Err("let pattern of a parser step is not (input, value)".into()),
                    };
                    let (pat, binds) = self.pat(vpat)?;
                    self.locals.push(binds);
                    let r = self.stmts_to_parser(rest, &newcur);
                    self.locals.pop();
                    return Ok(format!("(do let {pat} ← {p}; {})", r?));
                }
                // parser alias: let [mut] name = PEXPR;
                if let Pat::Ident(i) = &l.pat {
                    let saved_callees = self.callees.len();
                    let saved_ix = self.closure_ix;
                    match self.pexpr(&init.expr) {
                        Ok(p) => {
                            let n = i.ident.to_string();
                            self.parser_aliases.insert(n.clone(), p);
                            let mut s = HashSet::new();
                            s.insert(n);
                            self.locals.push(s);
                            let r = self.stmts_to_parser(rest, cur);
                            self.locals.pop();
                            return r;
                        }
                        Err(_) => {
                            self.callees.truncate(saved_callees);
                            self.closure_ix = saved_ix;
                        }
                    }
                }
                let v = self.vexpr(&init.expr)?;
                let (pat, binds) = self.pat(&l.pat)?;
                self.locals.push(binds);
                let r = self.stmts_to_parser(rest, cur);
                self.locals.pop();
                Ok(format!("(let {pat} := {v}; {})", r?))
            }
            Stmt::Expr(Expr::If(i), _) if i.else_branch.is_none() => {
                // if cond { return X; }
                let c = self.vexpr(&i.cond)?;
                if i.then_branch.stmts.len() != 1 {
                    return Err("early-return block".into());
                }
                let x = match &i.then_branch.stmts[0] {
                    Stmt::Expr(Expr::Return(r), _) => {
                        let e = r.expr.as_ref().ok_or("bare return")?;
                        self.ret_parser(e, cur)?
                    }
                    _ => return Err("if without else that is not an early return".into()),
                };
                let r = self.stmts_to_parser(rest, cur)?;
                Ok(format!("(if {c} then {x} else {r})"))
            }
            Stmt::Expr(Expr::MethodCall(m), Some(_)) if m.method == "insert" && m.args.len() == 2 => {
                // v.insert(0, x)  ==>  v := x :: v
                let zero = matches!(&m.args[0], Expr::Lit(l) if matches!(&l.lit, syn::Lit::Int(i) if i.base10_digits() == "0"));
                if !zero {
                    return Err("insert at a position other than 0".into());
                }
                let recv = self.vexpr(&m.receiver)?;
                let x = self.vexpr(&m.args[1])?;
                let r = self.stmts_to_parser(rest, cur)?;
                Ok(format!("(let {recv} := {x} :: {recv}; {r})"))
            }
            s => Err(format!("statement form: {}", s.to_token_stream())),
        }
    }

    fn tail(&mut self, e: &Expr, cur: &str) -> R<String> {
        if let Some(k) = self.nom_err_kind(e) {
            return Ok(k.to_string());
        }
        if let Expr::Call(c) = e {
            if let Expr::Path(p) = &*c.func {
                if p.path.is_ident("Ok") && c.args.len() == 1 {
                    if let Expr::Tuple(t) = &c.args[0] {
                        if t.elems.len() == 2 {
                            let first_ok = matches!(&t.elems[0], Expr::Path(q) if q.path.is_ident(cur));
                            if !first_ok {
                                return Err(format!("the result does not return the current input `{cur}`"));
                            }
                            return Ok(format!("(pure {})", self.vexpr(&t.elems[1])?));
                        }
                    }
                    return Err("Ok(..) form".into());
                }
            }
        }
        if let Expr::Return(r) = e {
            let e = r.expr.as_ref().ok_or("bare return")?;
            return self.tail(e, cur);
        }
        self.applied_to_input(e, cur)
    }
}

fn translate_one(fns: &BTreeMap<String, FnInfo>, uses: &HashMap<String, Uses>, consts: &HashMap<String, String>, cfg: &Config, key: &str) -> Outcome {
    let f = &fns[key];
    let mut tr = Tr {
        fns,
        uses,
        consts,
        cfg,
        module: f.module.clone(),
        fname: f.name.clone(),
        locals: vec![],
        parser_aliases: HashMap::new(),
        closure_ix: 0,
        callees: vec![],
        opaque_closures: vec![],
        notes: vec![],
        tuple_arity: HashMap::new(),
    };
    let fp = fingerprint_fn(&f.item);
    let mut is_parser = false;
    let mut stable_head = String::new();
    let def = (|| -> R<String> {
        let sig = &f.item.sig;
        let lname = lean_fn_name(&f.module, &f.name);
        // parameters
        let mut params: Vec<(String, &Type)> = vec![];
        for a in &sig.inputs {
            match a {
                FnArg::Typed(t) => {
                    let n = match &*t.pat {
                        Pat::Ident(i) => i.ident.to_string(),
                        _ => return Err("parameter pattern".into()),
                    };
                    params.push((n, &*t.ty));
                }
                _ => return Err("self parameter".into()),
            }
        }
        let ret = match &sig.output {
            ReturnType::Type(_, t) => &**t,
            _ => return Err("no return type".into()),
        };
        let ret_s = ret.to_token_stream().to_string();
        let mut binders = String::new();
        if let Some((selfname, selftype, _)) = cfg.recroot.get(key) {
            let _ = write!(binders, " ({selfname} : {selftype})");
        } else if let Some(root) = cfg.recmember.get(key) {
            let (selfname, selftype, _) = &cfg.recroot[root];
            let _ = write!(binders, " ({selfname} : {selftype})");
        }
        if let Type::ImplTrait(it) = ret {
            // a combinator: every parameter is a parser
            is_parser = true;
            let out = fnmut_output(&it.bounds).ok_or("impl Trait that is not FnMut")?;
            let out_ty = tr.ty(&out)?;
            let mut scope = HashSet::new();
            for (n, t) in &params {
                // type of the parameter from the generics / where clause
                let tn = t.to_token_stream().to_string();
                let mut pty: Option<String> = None;
                for gp in &sig.generics.params {
                    if let syn::GenericParam::Type(tp) = gp {
                        if tp.ident == tn {
                            if let Some(o) = fnmut_output(&tp.bounds) {
                                pty = Some(tr.ty(&o)?);
                            }
                        }
                    }
                }
                if let Some(w) = &sig.generics.where_clause {
                    for pr in &w.predicates {
                        if let syn::WherePredicate::Type(pt) = pr {
                            if pt.bounded_ty.to_token_stream().to_string() == tn {
                                if let Some(o) = fnmut_output(&pt.bounds) {
                                    pty = Some(tr.ty(&o)?);
                                }
                            }
                        }
                    }
                }
                let pty = pty.ok_or("combinator parameter without an FnMut bound")?;
                let _ = write!(binders, " ({} : {pty})", Tr::local_name(n));
                let _ = write!(stable_head, " ({} : {pty}) [Stable {}]", Tr::local_name(n), Tr::local_name(n));
                scope.insert(n.clone());
            }
            {
                let args: Vec<String> = params.iter().map(|(n, _)| Tr::local_name(n)).collect();
                stable_head = format!("instance{stable_head} : Stable ({lname} {})", args.join(" "));
            }
            tr.locals.push(scope);
            let body = &f.item.block;
            if body.stmts.len() != 1 {
                return Err("combinator body is not a single expression".into());
            }
            let e = match &body.stmts[0] {
                Stmt::Expr(e, None) => e,
                _ => return Err("combinator body".into()),
            };
            if matches!(e, Expr::Closure(c) if c.capture.is_some()) {
                return Err("hand-written closure (move |i| ..)".into());
            }
            let p = tr.pexpr(e)?;
            return Ok(format!("def {lname}{binders} : {out_ty} :=\n  {p}\n"));
        }
        let is_iresult = ret_s.starts_with("IResult") || ret_s.starts_with("ParseResult");
        if is_iresult {
            is_parser = true;
            let (input, _) = params.last().ok_or("parser without input parameter")?.clone();
            let mut scope = HashSet::new();
            let mut sb = String::new();
            let mut sargs: Vec<String> = vec![];
            if let Some((_, _, fix)) = cfg.recroot.get(key) {
                sargs.push(fix.clone());
            } else if let Some(root) = cfg.recmember.get(key) {
                sargs.push(cfg.recroot[root].2.clone());
            }
            for (n, t) in &params[..params.len() - 1] {
                let _ = write!(binders, " ({} : {})", Tr::local_name(n), tr.ty(t)?);
                let _ = write!(sb, " ({} : {})", Tr::local_name(n), tr.ty(t)?);
                sargs.push(Tr::local_name(n));
                scope.insert(n.clone());
            }
            let mut tps = String::new();
            let mut tpa = String::new();
            for gp in &sig.generics.params {
                if let syn::GenericParam::Type(tp) = gp {
                    let _ = write!(tps, " {{{} : Type}}", tp.ident);
                    let _ = write!(tpa, " ({} := {})", tp.ident, tp.ident);
                }
            }
            stable_head = format!("instance{tps}{sb} : Stable ({lname}{tpa} {})", sargs.join(" "));
            tr.locals.push(scope);
            let mut rty = tr.ty(ret)?;
            if let Some(o) = cfg.rettype.get(key) {
                rty = format!("(Parser {o})");
            }
            let p = tr.stmts_to_parser(&f.item.block.stmts, &input)?;
            return Ok(format!("def {lname}{binders} : {rty} :=\n  {p}\n"));
        }
        // a value function
        let mut scope = HashSet::new();
        for (n, t) in &params {
            let _ = write!(binders, " ({} : {})", Tr::local_name(n), tr.ty(t)?);
            scope.insert(n.clone());
        }
        tr.locals.push(scope);
        let rty = tr.ty(ret)?;
        let body = if ret_s.starts_with("Result") {
            if f.item.block.stmts.len() != 1 {
                return Err("Result function body".into());
            }
            match &f.item.block.stmts[0] {
                Stmt::Expr(e, None) => tr.rexpr(e)?,
                _ => return Err("Result function body".into()),
            }
        } else {
            tr.block_value(&f.item.block)?
        };
        Ok(format!("def {lname}{binders} : {rty} :=\n  {body}\n"))
    })();
    Outcome { def, callees: tr.callees, opaque_closures: tr.opaque_closures, fp, is_parser, stable_head }
}

fn vh_translate_main(src: &str, cfgpath: &str, out_parser: &str, out_tie: &str, out_report: &str) {
    let cfg = load_config(cfgpath);
    let mut files = vec![];
    collect_files(std::path::Path::new(src), &mut vec![], &mut files);
    let mut fns: BTreeMap<String, FnInfo> = BTreeMap::new();
    let mut uses: HashMap<String, Uses> = HashMap::new();
    let mut consts: HashMap<String, String> = HashMap::new();
    let mut order = 0;
    let skip_modules: HashSet<&str> = ["bodystructure"].into_iter().collect();
    let mut parse_errors = vec![];
    for (module, path) in &files {
        if skip_modules.contains(module.as_str()) {
            continue;
        }
        let text = std::fs::read_to_string(path).unwrap();
        let file = match syn::parse_file(&text) {
            Ok(f) => f,
            Err(e) => {
                parse_errors.push(format!("{}: {e}", path.display()));
                continue;
            }
        };
        let mut u = Uses::default();
        for it in &file.items {
            match it {
                Item::Use(us) => flatten_use(&us.tree, &mut vec![], &mut u),
                Item::Mod(m) if !is_cfg_test(&m.attrs) && m.content.is_none() => {
                    u.child_mods.insert(m.ident.to_string());
                }
                Item::Fn(f) if !is_cfg_test(&f.attrs) => {
                    let name = f.sig.ident.to_string();
                    fns.insert(format!("{module}::{name}"), FnInfo { module: module.clone(), name, item: f.clone(), order });
                    order += 1;
                }
                Item::Const(c) if !is_cfg_test(&c.attrs) => {
                    consts.insert(format!("{module}::{}", c.ident), c.expr.to_token_stream().to_string());
                }
                _ => {}
            }
        }
        uses.insert(module.clone(), u);
    }

    // phase 1: translate every function on its own
    let mut out: BTreeMap<String, Outcome> = BTreeMap::new();
    for k in fns.keys() {
        out.insert(k.clone(), translate_one(&fns, &uses, &consts, &cfg, k));
    }

    // counterpart of a function in the hand-written model
    let counterpart = |k: &str| -> Option<String> {
        if let Some(c) = cfg.fnmap.get(k) {
            return Some(c.clone());
        }
        if cfg.nocounterpart.contains(k) {
            return None;
        }
        let name = k.rsplit("::").next().unwrap();
        let guess = format!("Grammar.{}", camel(name));
        if cfg.model_defs.contains(&guess) {
            Some(guess)
        } else {
            None
        }
    };

    // phase 2: references to opaque functions are replaced by the hand-written counterpart; a function
    // that needs an opaque function without counterpart becomes opaque itself
    loop {
        let mut changed = false;
        let keys: Vec<String> = out.keys().cloned().collect();
        for k in &keys {
            if out[k].def.is_err() {
                continue;
            }
            let callees = out[k].callees.clone();
            for c in callees {
                if out[&c].def.is_err() && counterpart(&c).is_none() {
                    let msg = format!("calls {c}, which is not translated and has no counterpart in the model");
                    out.get_mut(k).unwrap().def = Err(msg);
                    changed = true;
                    break;
                }
            }
        }
        if !changed {
            break;
        }
    }
    for k in out.keys().cloned().collect::<Vec<_>>() {
        if let Ok(mut text) = out[&k].def.clone() {
            for c in out[&k].callees.clone() {
                if out[&c].def.is_err() {
                    let f = &fns[&c];
                    text = replace_token(&text, &lean_fn_name(&f.module, &f.name), &counterpart(&c).unwrap());
                }
            }
            out.get_mut(&k).unwrap().def = Ok(text);
        }
    }

    // emission order: callees first
    let mut emitted: Vec<String> = vec![];
    let mut state: HashMap<String, u8> = HashMap::new();
    fn visit(k: &str, out: &BTreeMap<String, Outcome>, state: &mut HashMap<String, u8>, emitted: &mut Vec<String>, cyc: &mut Vec<String>) {
        match state.get(k) {
            Some(2) => return,
            Some(1) => {
                cyc.push(k.to_string());
                return;
            }
            _ => {}
        }
        state.insert(k.to_string(), 1);
        if out[k].def.is_ok() {
            for c in &out[k].callees {
                if out[c].def.is_ok() {
                    visit(c, out, state, emitted, cyc);
                }
            }
        }
        state.insert(k.to_string(), 2);
        emitted.push(k.to_string());
    }
    let mut by_order: Vec<&String> = fns.keys().collect();
    by_order.sort_by_key(|k| fns[*k].order);
    let mut cyc = vec![];
    for k in by_order {
        visit(k, &out, &mut state, &mut emitted, &mut cyc);
    }
    for k in &cyc {
        out.get_mut(k).unwrap().def = Err("recursion outside the configured recursion roots".into());
    }

    // Parser.lean
    let mut p = String::new();
    p.push_str("/- GENERATED by harness/vh-translate (rs2lean) from /repo/imap-proto/src/parser - do not edit.\n   One definition per translated Rust function; see Gen/Comb.lean for the combinators. -/\n");
    p.push_str("import ImapVerif.Gen.Comb\nimport ImapVerif.Gen.Fix\nimport ImapVerif.Grammar.Rfc3501\nset_option linter.unusedVariables false\nopen Bytes Parser\n\n");
    let mut const_keys: Vec<&String> = consts.keys().collect();
    const_keys.sort();
    for k in const_keys {
        let (m, n) = k.split_once("::").unwrap();
        let v = consts[k].replace('_', "");
        if v.chars().all(|c| c.is_ascii_digit()) {
            let _ = write!(p, "def Gen.{m}.{n} : Nat := {v}\n");
        }
    }
    p.push('\n');
    for k in &emitted {
        if let Ok(d) = &out[k].def {
            let _ = write!(p, "-- {k}\n{d}\n");
        }
    }
    std::fs::write(out_parser, p).unwrap();

    // Tie.lean
    let tie_name = |k: &str| -> String {
        let f = &fns[k];
        format!("Gen.Tie.{}_{}", f.module, f.name)
    };
    let mut t = String::new();
    t.push_str("/- GENERATED by harness/vh-translate (rs2lean) - do not edit.\n   One theorem per translated function that has a counterpart in the hand-written model:\n   the definition regenerated from /repo's source equals the model's definition. -/\n");
    t.push_str("import ImapVerif.Gen.Parser\nimport ImapVerif.Gen.TieLemmas\nset_option linter.unusedSimpArgs false\nset_option linter.unusedVariables false\n-- the fall-back that reorders keyword alternatives rewrites large terms\nset_option maxHeartbeats 4000000\nopen Bytes Parser\n\n");
    let mut tied: Vec<String> = vec![];
    // lemma list of a function: ties of translated callees (transitively through inlined ones)
    let lemma_list = |k: &str| -> Vec<String> {
        let mut res = vec![];
        let mut seen = HashSet::new();
        let mut stack: Vec<String> = out[k].callees.clone();
        while let Some(c) = stack.pop() {
            if !seen.insert(c.clone()) {
                continue;
            }
            if out[&c].def.is_err() {
                continue;
            }
            if counterpart(&c).is_some() {
                res.push(tie_name(&c));
            } else {
                let f = &fns[&c];
                res.push(lean_fn_name(&f.module, &f.name));
                stack.extend(out[&c].callees.clone());
            }
        }
        res.sort();
        res.dedup();
        res
    };
    for k in &emitted {
        if out[k].def.is_err() {
            continue;
        }
        let cp = match counterpart(k) {
            Some(c) => c,
            None => continue,
        };
        let f = &fns[k];
        let lname = lean_fn_name(&f.module, &f.name);
        let stmt = cfg.tie_stmt.get(k).cloned().unwrap_or(format!("@{lname} = @{cp}"));
        let mut lemmas = lemma_list(k);
        if let Some(ex) = cfg.tie_extra.get(k) {
            lemmas.extend(ex.clone());
        }
        // a proof that does not go through is closed with `sorry` (a warning, so that the module and its
        // dependents still build); the axiom audit of ./check then shows `sorryAx` exactly in the theorems
        // that depend on the failed tie
        let body = match cfg.tie_proof.get(k) {
            Some(pf) => pf.replace("%LEMMAS%", &lemmas.join(", ")).lines().map(|l| format!("    {l}")).collect::<Vec<_>>().join("\n"),
            None => format!("      gen_tie {lname}, {cp} with [{}]", lemmas.join(", ")),
        };
        let proof = format!("  first\n  | (\n{body}\n      done\n    )\n  | sorry");
        let _ = write!(t, "-- {k}\ntheorem {} : {stmt} := by\n{proof}\n\n", tie_name(k));
        tied.push(k.clone());
    }
    std::fs::write(out_tie, t).unwrap();

    // StableGen.lean: `Stable` re-derived on the generated definitions themselves (instance search over the
    // generated body; the tie theorem is only the fall-back for functions with hand-bound parts)
    let mut sg = String::new();
    sg.push_str("/- GENERATED by harness/vh-translate (rs2lean) - do not edit.\n   `Stable` (C01: no panic; C02: verdicts are final) for every generated parser function, by instance search\n   over the generated definition; where that fails, through the function's tie theorem. -/\n");
    sg.push_str("import ImapVerif.Gen.Tie\nimport ImapVerif.Gen.StableComb\nopen Bytes Parser\nset_option synthInstance.maxSize 100000\nset_option synthInstance.maxHeartbeats 400000\nset_option maxRecDepth 4000\n\n");
    for k in &emitted {
        let o = &out[k];
        if o.def.is_err() || !o.is_parser || o.stable_head.is_empty() {
            continue;
        }
        let f = &fns[k];
        let lname = lean_fn_name(&f.module, &f.name);
        let via_tie = if tied.contains(k) {
            format!("\n  | (first | rw [{}] | simp only [{}]); unfold Gen.fixBody Gen.fixBodyExt; infer_instance\n  | (first | rw [{}] | simp only [{}]); infer_instance", tie_name(k), tie_name(k), tie_name(k), tie_name(k))
        } else {
            String::new()
        };
        let _ = write!(sg, "-- {k}\n{} := by\n  first\n  | (unfold {lname}; infer_instance)\n  | (unfold {lname}; simp only [Gen.Tie.core_text]; infer_instance){via_tie}\n\n", o.stable_head);
    }
    let stable_path = std::path::Path::new(out_tie).with_file_name("StableGen.lean");
    std::fs::write(stable_path, sg).unwrap();

    // reachability from parse_response
    let root = "parser::parse_response".to_string();
    let mut reach: HashSet<String> = HashSet::new();
    {
        // syntactic call graph: every function name mentioned in the body that resolves
        let mut stack = vec![root.clone()];
        while let Some(k) = stack.pop() {
            if !fns.contains_key(&k) || !reach.insert(k.clone()) {
                continue;
            }
            // callees recorded by the translation attempt are incomplete for opaque functions; use tokens
            let toks = fns[&k].item.block.to_token_stream().to_string();
            for (k2, f2) in &fns {
                if toks.split(|c: char| !(c.is_alphanumeric() || c == '_')).any(|w| w == f2.name) {
                    stack.push(k2.clone());
                }
            }
        }
    }

    // report
    let mut r = String::from("{\n \"functions\": [\n");
    let mut first = true;
    let mut broken: Vec<String> = vec![];
    for (k, o) in &out {
        if !first {
            r.push_str(",\n");
        }
        first = false;
        let cp = counterpart(k);
        let (status, detail) = match &o.def {
            Ok(_) => {
                if cp.is_some() {
                    ("translated-tied", String::new())
                } else {
                    ("translated-inlined", String::new())
                }
            }
            Err(e) => match cfg.opaque_fp.get(k) {
                Some(fp) if fp == &o.fp => ("opaque-unchanged", e.clone()),
                Some(fp) => {
                    broken.push(format!("{k}: opaque function changed (fingerprint {} recorded {fp}): {e}", o.fp));
                    ("opaque-CHANGED", e.clone())
                }
                None => {
                    broken.push(format!("{k}: not translatable and not recorded as opaque (fingerprint {}): {e}", o.fp));
                    ("untranslatable", e.clone())
                }
            },
        };
        let _ = write!(
            r,
            "  {{\"fn\": {}, \"status\": {}, \"counterpart\": {}, \"fingerprint\": {}, \"reachable\": {}, \"parser\": {}, \"hand_bound_closures\": [{}], \"detail\": {}}}",
            json_str(k),
            json_str(status),
            json_str(cp.as_deref().unwrap_or("")),
            json_str(&o.fp),
            reach.contains(k),
            o.is_parser,
            o.opaque_closures.iter().map(|s| json_str(s)).collect::<Vec<_>>().join(", "),
            json_str(&detail)
        );
    }
    // items outside the parser directory that the parser's behaviour depends on (fingerprint only)
    let mut extra: Vec<(String, String)> = vec![];
    let up = std::path::Path::new(src).parent().unwrap().to_path_buf();
    if let Ok(text) = std::fs::read_to_string(up.join("types.rs")) {
        if let Ok(file) = syn::parse_file(&text) {
            for it in &file.items {
                if let Item::Impl(im) = it {
                    // `.into()` / `From::from` of the UIDPLUS parsers (bound by hand in the config: `into ...`)
                    if let Some((_, tp, _)) = &im.trait_ {
                        let t = tp.to_token_stream().to_string().replace(' ', "");
                        if im.self_ty.to_token_stream().to_string().starts_with("UidSetMember") && t.starts_with("From<") {
                            let mut i2 = im.clone();
                            i2.attrs.clear();
                            let key = if t.contains("RangeInclusive") { "types::UidSetMember::from_range" } else { "types::UidSetMember::from_u32" };
                            extra.push((key.into(), fnv(&i2.to_token_stream().to_string())));
                        }
                    }
                    if im.trait_.is_none() && im.self_ty.to_token_stream().to_string().starts_with("Response") {
                        for ii in &im.items {
                            if let syn::ImplItem::Fn(m) = ii {
                                if m.sig.ident == "from_bytes" {
                                    let mut m2 = m.clone();
                                    m2.attrs.clear();
                                    extra.push(("types::Response::from_bytes".into(), fnv(&m2.to_token_stream().to_string())));
                                }
                            }
                        }
                    }
                }
            }
        }
    }
    if let Ok(text) = std::fs::read_to_string(up.join("types").join("acls.rs")) {
        if let Ok(file) = syn::parse_file(&text) {
            for it in &file.items {
                if let Item::Impl(im) = it {
                    if let Some((_, tp, _)) = &im.trait_ {
                        let t = tp.to_token_stream().to_string().replace(' ', "");
                        if t == "From<char>" && im.self_ty.to_token_stream().to_string().starts_with("AclRight") {
                            let mut i2 = im.clone();
                            i2.attrs.clear();
                            extra.push(("types::acls::AclRight::from_char".into(), fnv(&i2.to_token_stream().to_string())));
                        }
                    }
                }
            }
        }
    }
    for want in ["types::Response::from_bytes", "types::acls::AclRight::from_char", "types::UidSetMember::from_range", "types::UidSetMember::from_u32"] {
        let got = extra.iter().find(|(k, _)| k == want);
        let (status, fp) = match (got, cfg.opaque_fp.get(want)) {
            (Some((_, fp)), Some(rec)) if fp == rec => ("opaque-unchanged", fp.clone()),
            (Some((_, fp)), Some(rec)) => {
                broken.push(format!("{want}: changed (fingerprint {fp} recorded {rec})"));
                ("opaque-CHANGED", fp.clone())
            }
            (Some((_, fp)), None) => {
                broken.push(format!("{want}: not recorded (fingerprint {fp})"));
                ("untranslatable", fp.clone())
            }
            (None, _) => {
                broken.push(format!("{want}: not found in the source"));
                ("missing", String::new())
            }
        };
        let _ = write!(
            r,
            ",\n  {{\"fn\": {}, \"status\": {}, \"counterpart\": \"\", \"fingerprint\": {}, \"reachable\": true, \"parser\": false, \"hand_bound_closures\": [], \"detail\": \"item outside the parser directory, fingerprint only\"}}",
            json_str(want),
            json_str(status),
            json_str(&fp)
        );
    }
    r.push_str("\n ],\n \"broken\": [");
    r.push_str(&broken.iter().map(|s| json_str(s)).collect::<Vec<_>>().join(", "));
    r.push_str("],\n \"parse_errors\": [");
    r.push_str(&parse_errors.iter().map(|s| json_str(s)).collect::<Vec<_>>().join(", "));
    r.push_str("],\n \"tied\": [");
    r.push_str(&tied.iter().map(|s| json_str(&tie_name(s))).collect::<Vec<_>>().join(", "));
    r.push_str("]\n}\n");
    std::fs::write(out_report, r).unwrap();
    let n_ok = out.values().filter(|o| o.def.is_ok()).count();
    eprintln!("rs2lean: {} functions, {} translated ({} tied), {} opaque, {} broken", out.len(), n_ok, tied.len(), out.len() - n_ok, broken.len());
}
