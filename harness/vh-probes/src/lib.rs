// probes only
