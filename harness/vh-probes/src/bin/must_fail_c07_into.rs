// C07 must-not-compile: the frame converted into its 'static view (the bytes would be dropped).
use tokio_imap::types::Response;
use tokio_imap::ResponseData;
#[allow(unused)]
fn f(frame: ResponseData) -> Response<'static> {
    frame.into() // no From<ResponseData> for Response<'static>
}
fn main() {}
