// C07 must-not-compile: the erased-lifetime view reached through AsRef.
use tokio_imap::types::Response;
use tokio_imap::ResponseData;
#[allow(unused)]
fn f(frame: &ResponseData) -> &Response<'static> {
    frame.as_ref() // no AsRef<Response<'static>>
}
fn main() {}
