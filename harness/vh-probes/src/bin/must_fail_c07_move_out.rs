// C07 must-not-compile: the parsed value (with its erased 'static lifetime) moved out of the frame.
use tokio_imap::types::Response;
use tokio_imap::ResponseData;
#[allow(unused)]
fn f(frame: ResponseData) -> Response<'static> {
    let r: Response<'static> = *frame.parsed(); // cannot move out of a shared reference
    r
}
fn main() {}
