use imap_proto::builders::command::{Command, CommandBuilder};
use imap_proto::types::{AttrMacro, Attribute};
#[allow(unused)]
fn main() {
    let _ = (AttrMacro::All, Attribute::Uid);
    let _c: Command = CommandBuilder::uid_fetch().num(1).num(2).into();
}
