// C07 must-not-compile: a borrowed view returned past the frame it was read from.
use tokio_imap::types::Response;
use tokio_imap::ResponseData;
#[allow(unused)]
fn leak(frame: ResponseData) -> &'static Response<'static> {
    frame.parsed() // the view is tied to the borrow of `frame`, which ends here
}
fn main() {}
