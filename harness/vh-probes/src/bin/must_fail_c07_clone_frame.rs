// C07 must-not-compile: frames are not Clone (a clone would duplicate the erased-lifetime view).
use tokio_imap::ResponseData;
#[allow(unused)]
fn f(frame: ResponseData) -> (ResponseData, ResponseData) {
    let twin = frame.clone(); // no method `clone`
    (frame, twin)
}
fn main() {}
