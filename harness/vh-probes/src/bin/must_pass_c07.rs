// C07 must-compile: what the API is meant to offer - read the view while the frame is borrowed,
// hold frames in a collection, move a frame to another thread and read it there.
use tokio_imap::types::Response;
use tokio_imap::ResponseData;
fn assert_send<T: Send>(_: &T) {}
#[allow(unused)]
fn f(frame: ResponseData, more: Vec<ResponseData>) -> String {
    let text = match frame.parsed() { Response::Data { information: Some(s), .. } => s.to_string(), _ => String::new() };
    assert_send(&frame);
    let n = more.iter().filter(|fr| fr.request_id().is_some()).count();
    let h = std::thread::spawn(move || format!("{:?} {}", frame.parsed(), n));
    let _ = h.join();
    drop(more);
    text
}
fn main() {}
