// C07 must-not-compile: the view is used after the frame's scope has ended.
use tokio_imap::ResponseData;
#[allow(unused)]
fn f(mk: impl Fn() -> ResponseData) {
    let view;
    { let frame = mk(); view = frame.parsed(); } // frame dropped here while `view` is still alive
    println!("{:?}", view);
}
fn main() {}
