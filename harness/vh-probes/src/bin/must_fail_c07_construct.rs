// C07 must-not-compile: a frame cannot be assembled by hand from unrelated bytes and a view.
use tokio_imap::types::Response;
use tokio_imap::ResponseData;
#[allow(unused)]
fn f(view: Response<'static>) -> ResponseData {
    ResponseData { raw: Default::default(), response: view } // private fields
}
fn main() {}
