// C07 must-not-compile: a view stored in a longer-lived place than its frame.
use tokio_imap::types::Response;
use tokio_imap::ResponseData;
#[allow(unused)]
fn f<'v>(frame: ResponseData, stash: &mut Vec<&'v Response<'v>>) {
    stash.push(frame.parsed()); // `frame` does not live as long as 'v
}
fn main() {}
