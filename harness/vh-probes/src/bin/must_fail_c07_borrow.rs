// C07 must-not-compile: the erased-lifetime view reached through Borrow.
use std::borrow::Borrow;
use tokio_imap::types::Response;
use tokio_imap::ResponseData;
fn f(frame: &ResponseData) -> &Response<'static> {
    frame.borrow() // no Borrow<Response<'static>>
}
fn main() { let _ = f; }
