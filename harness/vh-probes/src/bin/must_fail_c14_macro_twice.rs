use imap_proto::builders::command::{Command, CommandBuilder};
use imap_proto::types::{AttrMacro, Attribute};
#[allow(unused)]
fn main() {
    let _ = (AttrMacro::All, Attribute::Uid);
    let _c = CommandBuilder::fetch().num(1).attr_macro(AttrMacro::Fast).attr_macro(AttrMacro::All);
}
