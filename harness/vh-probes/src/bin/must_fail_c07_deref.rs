// C07 must-not-compile: the erased-lifetime view reached by dereferencing the frame.
use tokio_imap::types::Response;
use tokio_imap::ResponseData;
#[allow(unused)]
fn f(frame: &ResponseData) -> &Response<'static> {
    &**frame // ResponseData must not Deref to its 'static view
}
fn main() {}
