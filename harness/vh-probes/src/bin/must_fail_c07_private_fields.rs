// C07 must-not-compile: the fields holding the bytes and the erased-lifetime view are private.
use tokio_imap::types::Response;
use tokio_imap::ResponseData;
#[allow(unused)]
fn f(frame: ResponseData) -> Response<'static> {
    frame.response // private field: the 'static view cannot be taken out
}
fn main() {}
