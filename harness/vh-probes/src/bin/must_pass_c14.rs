use imap_proto::builders::command::{Command, CommandBuilder};
use imap_proto::types::{AttrMacro, Attribute};
#[allow(unused)]
fn main() {
    let _ = (AttrMacro::All, Attribute::Uid);
    let a: Command = CommandBuilder::fetch().num(1).range(2..=3).range_from(4..).attr(Attribute::Uid).attr(Attribute::Flags).into(); let b: Command = CommandBuilder::uid_fetch().num(1).attr_macro(AttrMacro::All).changed_since(1).into(); let c: Command = CommandBuilder::fetch().num(1).attr(Attribute::Uid).changed_since(2).into(); let d: Command = CommandBuilder::select("x").cond_store().into(); let e: Command = CommandBuilder::examine("x").into(); let f: Command = CommandBuilder::fetch().num(1).attr_macro(AttrMacro::Full).into();
}
