// C07 must-not-compile: the frame is dropped (moved) while a view of it is still in use.
use tokio_imap::ResponseData;
#[allow(unused)]
fn f(frame: ResponseData) {
    let view = frame.parsed();
    drop(frame); // moves the frame out from under the borrow
    println!("{:?}", view);
}
fn main() {}
