use imap_proto::builders::command::{Command, CommandBuilder};
use imap_proto::types::{AttrMacro, Attribute};
#[allow(unused)]
fn main() {
    let _ = (AttrMacro::All, Attribute::Uid);
    let _c = CommandBuilder::fetch().num(1).attr(Attribute::Uid).changed_since(1).changed_since(2);
}
