// C07 must-not-compile: a string borrowed from the view claimed to be 'static.
use tokio_imap::types::Response;
use tokio_imap::ResponseData;
#[allow(unused)]
fn info(frame: &ResponseData) -> &'static str {
    match frame.parsed() { Response::Data { information: Some(s), .. } => s.as_ref(), _ => "" } // borrowed from `frame`
}
fn main() {}
