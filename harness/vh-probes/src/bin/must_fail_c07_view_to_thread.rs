// C07 must-not-compile: a borrowed view handed to a thread that may outlive the frame.
use tokio_imap::ResponseData;
#[allow(unused)]
fn f(frame: ResponseData) {
    let view = frame.parsed();
    std::thread::spawn(move || println!("{:?}", view)); // requires 'static, `frame` does not live that long
}
fn main() {}
