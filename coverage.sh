#!/bin/sh
# usage: coverage.sh   - how much of imap-proto the quick-tier generators of the parser / builder / type checks execute.
# Not a registered check: a measurement of generator reach (region coverage with -C instrument-coverage, nightly).
# Note: tiny non-generic functions inlined across crates (e.g. `From<FetchCommand<_>> for Command`) show as unexecuted.
here=$(cd "$(dirname "$0")" && pwd); cd "$here/harness" || exit 2
T=$(dirname "$(rustup which --toolchain nightly rustc)")/../lib/rustlib/x86_64-unknown-linux-gnu/bin
out="$here/out/cov"; mkdir -p "$out"; rm -f "$out"/*.profraw
LLVM_PROFILE_FILE="$out/build-%p.profraw" RUSTFLAGS="-C instrument-coverage" cargo +nightly build --offline --release -p vh-proto -p vh-client --target-dir "$here/harness/target-cov" >/dev/null 2>&1 || exit 2
for pr in "vh_parser C01" "vh_parser C02" "vh_parser C09" "vh_parser C13" "vh_values C03" "vh_values C08" "vh_values C12" "vh_values C16" "vh_builders C10" "vh_builders C14" "vh_types C15" "vh_types C17" "vh_client C04" "vh_client C05" "vh_client C06" "vh_client C11" "vh_client C08" "vh_frames C07"; do
  set -- $pr
  LLVM_PROFILE_FILE="$out/$1-$2-%p.profraw" target-cov/release/$1 --prop $2 --seed ${VERIF_SEED:-1} --tier quick --model "$here/lean/.lake/build/bin/imapmodel" --out "$out/$1-$2.json" --shards 4 >/dev/null
done
rm -f "$out"/build-*.profraw
"$T/llvm-profdata" merge -sparse "$out"/*.profraw -o "$out/all.profdata"
"$T/llvm-cov" report -instr-profile="$out/all.profdata" -object target-cov/release/vh_parser -object target-cov/release/vh_values -object target-cov/release/vh_builders -object target-cov/release/vh_types -object target-cov/release/vh_client -object target-cov/release/vh_frames --ignore-filename-regex='(registry|rustc|vh-proto|vh-client)' | grep -E "imap-proto|tokio-imap|TOTAL" | awk '{printf "%-60s regions=%s missed=%s cover=%s\n", $1, $2, $3, $4}'
