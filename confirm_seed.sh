#!/bin/sh
# usage: confirm_seed.sh <seed_dir> <crate: imap-proto|tokio-imap> <name>
# Confirms in a scratch worktree that a seeded change (a) applies, (b) builds, (c) keeps the existing
# 78 tests green, (d) makes its demonstration fail, and that the demonstration passes without it.
d="$1"; crate="$2"; name="$3"; feat=""; [ "$crate" = "tokio-imap" ] && feat="--features djc_tokio_imap_verif"
wt=/tmp/confirm_$name
git -C /repo worktree remove --force $wt 2>/dev/null
git -C /repo worktree add -q --detach $wt HEAD || exit 2
cd $wt
mkdir -p $crate/tests
cp "$d/demo.rs" $crate/tests/seed_demo.rs
base=$(CARGO_NET_OFFLINE=true cargo test --offline -p $crate $feat --test seed_demo 2>&1 | grep -E "^test result" | head -1)
git apply "$d/patch.diff" || { echo "APPLY-FAIL"; exit 2; }
suite=$(CARGO_NET_OFFLINE=true cargo test --workspace --offline --lib 2>&1 | grep -E "^test result" | head -1)
demo=$(CARGO_NET_OFFLINE=true cargo test --offline -p $crate $feat --test seed_demo 2>&1 | grep -E "^test result|signal|abort|panicked" | head -3 | tr '\n' ' ')
echo "$name: unchanged-demo=[$base] suite-with-change=[$suite] demo-with-change=[$demo]"
cd /; git -C /repo worktree remove --force $wt
